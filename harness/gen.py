"""Generators shared by the property modules.  Every random choice comes from the one
random.Random instance handed in, so a seed replays exactly."""
import itertools
from fractions import Fraction

DIM_POOL = ["t2", "t10", "a", "B", "f1", "x", "Power", "zz", "b", "t1"]


def distinct_shape(rng, ndim, lo=1, hi=5):
    """pairwise distinct extents, 1 allowed"""
    return rng.sample(range(lo, hi + 1), ndim)


def coord_axis(rng, n, kind=None):
    kind = kind or rng.choice(["asc", "desc", "nonuni", "asc", "neg"])
    if kind == "asc":
        st = Fraction(rng.choice([1, 1, 2, 1]), rng.choice([1, 2, 4]))
        x0 = Fraction(rng.randint(-4, 4), 2)
        c = [x0 + st * k for k in range(n)]
    elif kind == "desc":
        st = Fraction(rng.choice([1, 2, 3]), rng.choice([1, 2]))
        x0 = Fraction(rng.randint(0, 8), 1)
        c = [x0 - st * k for k in range(n)]
    elif kind == "neg":
        c = [Fraction(-n + k) for k in range(n)]
    elif kind == "shuffled":
        # pairwise DISTINCT coordinates: the order NumPy's argsort gives equal keys is not defined (quicksort), the model's sort
        # is stable — repeated coordinates are judged by the slice-multiset oracle of C02, not by the correspondence
        x0 = Fraction(rng.randint(-3, 3))
        c = [x0 + Fraction(k, 2) for k in range(n)]
        rng.shuffle(c)
        while n > 1 and (c == sorted(c) or c == sorted(c, reverse=True)):
            rng.shuffle(c)
            if n == 2:
                c = sorted(c, reverse=True); break
    else:
        c, x = [], Fraction(rng.randint(-3, 3))
        for _ in range(n):
            c.append(x)
            x += Fraction(rng.choice([1, 2, 3, 5]), rng.choice([1, 2, 4]))
    return [str(x) for x in c]


def selfdesc_values(shape, cplx=False, salt=0):
    """value = sum (idx_k + 1) * 10^k (+ salt): any misplacement changes the printed data"""
    vals = []
    for idx in itertools.product(*[range(n) for n in shape]):
        v = salt + sum((i + 1) * 10 ** k for k, i in enumerate(idx))
        if cplx:
            vals.append("%d,%d" % (v, -(v % 7) - 1))
        else:
            vals.append(str(v))
    return vals


def new_op(rng, oid, ndim=None, dims=None, shape=None, cplx=None, attrs=False, hist=0, kinds=None, salt=0):
    ndim = ndim or rng.randint(1, 4)
    dims = dims or rng.sample(DIM_POOL, ndim)
    shape = shape or distinct_shape(rng, len(dims))
    cplx = rng.random() < 0.3 if cplx is None else cplx
    op = {
        "op": "new", "id": oid, "dims": list(dims), "shape": list(shape),
        "coords": [coord_axis(rng, n, None if kinds is None else kinds[k]) for k, n in enumerate(shape)],
        "values": selfdesc_values(shape, cplx, salt),
    }
    if attrs:
        op["attrs"] = {"nmr_frequency": "400000000", "name": "'s%d'" % oid, "lst": "[1,2,3]"}
        op["dattrs"] = {"experiment_type": "'nmr_spectrum'"}
    if hist:
        # earlier steps carry the names real steps record (a function that looks its own entry up by name, or filters by
        # name, meets them) as well as arbitrary ones
        names = ["numpy.mean", "numpy.sum", "average", "autophase", "integrate", "window", "phase_correction", "normalized",
                 "fourier_transform", "interp", "reference", "left_shift", "remove_background"]
        op["hist"] = [[(rng.choice(names) if rng.random() < 0.6 else "step%d" % k),
                       sorted(rng.sample(["dim", "lw", "p0", "regions"], rng.randint(0, 3)))]
                      for k in range(hist)]
    return op


def perms(xs):
    return [list(p) for p in itertools.permutations(xs)]


def partial_orders(rng, dims, k=None):
    """a duplicate-free sublist of dims in random order"""
    k = rng.randint(1, len(dims)) if k is None else k
    return rng.sample(dims, k)


# ----------------------------------------------------------------------------- selectors
def rand_sel(rng, coords):
    n = len(coords)
    cs = [Fraction(x) for x in coords]
    lo, hi = min(cs), max(cs)
    grid = [lo - 2, lo - Fraction(1, 4), lo, lo + (hi - lo) / 3, (lo + hi) / 2 + Fraction(1, 8), hi, hi + Fraction(1, 2), hi + 3]
    c = rng.random()
    if c < 0.2:
        return {"int": rng.randint(-n, n - 1)}
    if c < 0.35:
        return {"flt": str(rng.choice(grid))}
    if c < 0.4:
        return {"tup1": str(rng.choice(grid))}
    if c < 0.75:
        return {"range": [str(rng.choice(grid)), str(rng.choice(grid))]}
    vals = [None, -3, -2, -1, 0, 1, 2, 3]
    step = rng.choice([None, 1, 2, -1, -2, 3])
    return {"slice": [rng.choice(vals), rng.choice(vals), step]}


class Hist:
    """builds one random history over the public operation alphabet, tracking just enough
    state (dims and shapes of each object) to keep most operations valid"""

    def __init__(self, rng, max_objs=4, cplx=None):
        self.rng, self.ops, self.meta, self.max_objs, self.cplx = rng, [], {}, max_objs, cplx
        self.next_id = 0

    def fresh(self, **kw):
        op = new_op(self.rng, self.next_id, cplx=self.cplx if self.cplx is not None else None, **kw)
        self.meta[self.next_id] = {"dims": list(op["dims"]), "shape": list(op["shape"]),
                                   "coords": [list(c) for c in op["coords"]], "unfolded": False}
        self.ops.append(op)
        self.next_id += 1
        return op["id"]

    def out_id(self):
        i = self.next_id
        self.next_id += 1
        return i

    def pick(self):
        return self.rng.choice(sorted(self.meta))

    def forget(self, i):
        """after an op whose effect on shape we do not track precisely"""
        self.meta.pop(i, None)

    def step(self, allow=None):
        rng = self.rng
        if not self.meta:
            self.fresh(attrs=rng.random() < 0.4, hist=rng.randint(0, 2))
            return
        i = self.pick()
        m = self.meta[i]
        dims = m["dims"]
        kinds = allow or ["reorder", "sort_dims", "rename", "sort", "new_dim", "squeeze", "getitem", "binop_self",
                          "binop_new", "scalarop", "method", "np_reduce", "np_unary", "np_binary", "copy",
                          "unfold_fold", "concat", "set_attr", "add_hist", "setitem", "np_scalar", "new", "arrayop",
                          "concatenate", "split", "set_value"]
        k = rng.choice(kinds)
        O = self.ops
        if k == "new":
            if len(self.meta) < self.max_objs:
                self.fresh(attrs=rng.random() < 0.4, hist=rng.randint(0, 2))
        elif k == "reorder":
            arg = partial_orders(rng, dims)
            O.append({"op": "reorder", "obj": i, "dims": arg}); self.permute(i, arg + [d for d in dims if d not in arg])
        elif k == "sort_dims":
            O.append({"op": "sort_dims", "obj": i}); self.permute(i, sorted(dims))
        elif k == "rename":
            new = rng.choice([x for x in DIM_POOL + ["q1", "q2", "q3"] if x not in dims])
            old = rng.choice(dims)
            O.append({"op": "rename", "obj": i, "dim": old, "new": new})
            m["dims"][dims.index(old)] = new
        elif k == "sort":
            dm = rng.choice(dims)
            O.append({"op": "sort", "obj": i, "dim": dm})
            kx = dims.index(dm)
            m["coords"][kx] = [str(x) for x in sorted(Fraction(c) for c in m["coords"][kx])]
        elif k == "new_dim":
            if len(dims) < 4:
                new = rng.choice([x for x in DIM_POOL + ["q1", "q2", "q3"] if x not in dims])
                c = str(rng.randint(-3, 9))
                O.append({"op": "new_dim", "obj": i, "dim": new, "coord": c})
                m["dims"].append(new); m["shape"].append(1); m["coords"].append([c])
        elif k == "squeeze":
            if any(s != 1 for s in m["shape"]):
                O.append({"op": "squeeze", "obj": i})
                keep = [j for j, s in enumerate(m["shape"]) if s != 1]
                for f in ("dims", "shape", "coords"):
                    m[f] = [m[f][j] for j in keep]
        elif k == "getitem":
            o = self.out_id()
            sel = [[d, rand_sel(rng, m["coords"][dims.index(d)])] for d in rng.sample(dims, rng.randint(1, min(2, len(dims))))]
            O.append({"op": "getitem", "obj": i, "sel": sel, "out": o})
        elif k == "setitem":
            sel = [[d, rand_sel(rng, m["coords"][dims.index(d)])] for d in rng.sample(dims, rng.randint(1, min(2, len(dims))))]
            O.append({"op": "setitem", "obj": i, "sel": sel, "value": str(90001 + len(O))})
        elif k == "binop_self":
            o = self.out_id()
            O.append({"op": "binop", "f": rng.choice(["add", "sub", "mul"]), "lhs": i, "rhs": i, "out": o})
            self.meta[o] = {f: [list(x) if isinstance(x, list) else x for x in m[f]] for f in ("dims", "shape", "coords")}
            self.meta[o]["unfolded"] = False
        elif k == "binop_new":
            # a second operand sharing a random subset of dims (same coords), in another order, plus maybe a new dim
            if len(self.meta) >= self.max_objs:
                return
            sub = rng.sample(range(len(dims)), rng.randint(1, len(dims)))
            bd = [dims[j] for j in sub]; bs = [m["shape"][j] for j in sub]; bc = [list(m["coords"][j]) for j in sub]
            if rng.random() < 0.3 and len(bd) < 4:
                nd = rng.choice([x for x in DIM_POOL + ["q1", "q2", "q3"] if x not in dims])
                ext = rng.choice([e for e in (1, 2, 3, 4, 5, 6) if e not in m["shape"]] or [6])
                bd.append(nd); bs.append(ext); bc.append([str(x) for x in range(ext)])
            b = self.next_id; self.next_id += 1
            O.append({"op": "new", "id": b, "dims": bd, "shape": bs, "coords": bc,
                      "values": selfdesc_values(bs, rng.random() < 0.3, salt=3)})
            self.meta[b] = {"dims": list(bd), "shape": list(bs), "coords": [list(c) for c in bc], "unfolded": False}
            o = self.out_id()
            lhs, rhs = (i, b) if rng.random() < 0.5 else (b, i)
            O.append({"op": "binop", "f": rng.choice(["add", "sub", "mul", "truediv"]), "lhs": lhs, "rhs": rhs, "out": o})
        elif k == "scalarop":
            o = self.out_id()
            O.append({"op": "scalarop", "f": rng.choice(["add", "sub", "mul", "truediv"]), "obj": i,
                      "scalar": rng.choice(["2", "-3", "1/2", "1,2", "4"]), "out": o,
                      **({"refl": True} if rng.random() < 0.5 else {})})
        elif k == "arrayop":
            o = self.out_id()
            O.append({"op": "arrayop", "f": rng.choice(["add", "sub", "mul"]), "obj": i, "shape": list(m["shape"]),
                      "values": selfdesc_values(m["shape"], False, salt=7), "out": o,
                      **({"refl": True} if rng.random() < 0.5 else {})})
        elif k == "method":
            o = self.out_id()
            O.append({"op": "method", "f": rng.choice(["sum", "maximum", "minimum", "argmax", "argmin",
                                                       "argmax_index", "argmin_index", "cumulative_sum"]),
                      "obj": i, "dim": rng.choice(dims), "out": o})
        elif k == "np_reduce":
            o = self.out_id()
            ax = rng.choice([None, rng.choice(dims), rng.randrange(len(dims)), -1 - rng.randrange(len(dims))])
            if len(dims) >= 2 and rng.random() < 0.3:
                ks = rng.sample(range(len(dims)), rng.randint(1, len(dims)))
                ax = [rng.choice([dims[k], k, k - len(dims)]) for k in ks]
            O.append({"op": "np_reduce", "f": rng.choice(["sum", "mean", "max", "min", "prod", "var", "ptp", "median", "any", "all"]),
                      "obj": i, "axis": ax, "out": o})
        elif k == "np_unary":
            o = self.out_id()
            O.append({"op": "np_unary", "f": rng.choice(["negative", "conj", "square", "positive"]), "obj": i, "out": o})
        elif k == "np_scalar":
            o = self.out_id()
            O.append({"op": "np_scalar", "f": rng.choice(["add", "subtract", "multiply"]), "obj": i,
                      "scalar": rng.choice(["2", "-3", "1/2"]), "out": o, **({"refl": True} if rng.random() < 0.5 else {})})
        elif k == "np_binary":
            if len(self.meta) >= self.max_objs:
                return
            b = self.next_id; self.next_id += 1
            O.append({"op": "new", "id": b, "dims": list(dims), "shape": list(m["shape"]),
                      "coords": [list(c) for c in m["coords"]], "values": selfdesc_values(m["shape"], False, salt=11)})
            self.meta[b] = {"dims": list(dims), "shape": list(m["shape"]), "coords": [list(c) for c in m["coords"]], "unfolded": False}
            o = self.out_id()
            O.append({"op": "np_binary", "f": rng.choice(["add", "subtract", "multiply"]), "lhs": i, "rhs": b, "out": o})
        elif k == "copy":
            if len(self.meta) < self.max_objs:
                o = self.out_id()
                O.append({"op": "copy", "obj": i, "out": o})
                self.meta[o] = {"dims": list(dims), "shape": list(m["shape"]), "coords": [list(c) for c in m["coords"]], "unfolded": False}
        elif k == "unfold_fold":
            O.append({"op": "unfold", "obj": i, "dim": rng.choice(dims)})
            O.append({"op": "fold", "obj": i})
        elif k == "concat":
            if len(self.meta) >= self.max_objs:
                return
            b = self.next_id; self.next_id += 1
            O.append({"op": "new", "id": b, "dims": list(dims), "shape": list(m["shape"]),
                      "coords": [list(c) for c in m["coords"]], "values": selfdesc_values(m["shape"], False, salt=13)})
            self.meta[b] = {"dims": list(dims), "shape": list(m["shape"]), "coords": [list(c) for c in m["coords"]], "unfolded": False}
            o = self.out_id()
            O.append({"op": "concat", "objs": [i, b], "dim": "cc", "coord": rng.choice([None, ["5", "7"]]), "out": o})
        elif k == "concatenate":
            if len(self.meta) >= self.max_objs:
                return
            dm = rng.choice(dims); kx = dims.index(dm)
            sb = list(m["shape"]); sb[kx] = rng.randint(1, 2)
            cb = [list(c) for c in m["coords"]]
            bad = len(dims) > 1 and rng.random() < 0.15        # an extent off the axis differs: NumPy refuses
            if bad:
                ko = rng.choice([q for q in range(len(dims)) if q != kx])
                sb[ko] += 1
                cb[ko] = cb[ko] + [str(max(Fraction(x) for x in cb[ko]) + 1)]
            top = max(Fraction(x) for x in m["coords"][kx])
            cb[kx] = [str(top + 1 + t) for t in range(sb[kx])]
            b = self.next_id; self.next_id += 1
            O.append({"op": "new", "id": b, "dims": list(dims), "shape": sb, "coords": cb,
                      "values": selfdesc_values(sb, False, salt=17)})
            self.meta[b] = {"dims": list(dims), "shape": list(sb), "coords": [list(c) for c in cb], "unfolded": False}
            if rng.random() < 0.6 and len(dims) > 1:
                arg = partial_orders(rng, dims)
                O.append({"op": "reorder", "obj": b, "dims": arg}); self.permute(b, arg + [d for d in dims if d not in arg])
            O.append({"op": "concatenate", "obj": i, "other": b, "dim": dm})
            if not bad:
                m["shape"][kx] += sb[kx]; m["coords"][kx] = m["coords"][kx] + cb[kx]
        elif k == "split":
            kx = rng.randrange(len(dims))
            n = m["shape"][kx]
            divs = [q for q in (2, 3) if n % q == 0 and n // q >= 1]
            if divs and "sp" not in dims and len(dims) < 4:
                q = rng.choice(divs)
                O.append({"op": "split", "obj": i, "dim": dims[kx], "new": "sp", "coord": [str(t) for t in range(q)]})
                self.forget(i)
        elif k == "set_attr":
            O.append({"op": rng.choice(["set_attr", "set_dattr"]), "obj": i, "key": rng.choice(["k1", "nmr_frequency", "k2"]),
                      "value": rng.choice(["5", "'abc'", "[1,2]", "None"])})
        elif k == "add_hist":
            O.append({"op": "add_hist", "obj": i, "name": "manual", "keys": ["p"]})
        elif k == "set_value":
            O.append({"op": "set_value", "obj": i, "flat": 0, "value": str(70001 + len(O))})

    def permute(self, i, new_dims):
        m = self.meta[i]
        idx = [m["dims"].index(d) for d in new_dims]
        for f in ("dims", "shape", "coords"):
            m[f] = [m[f][j] for j in idx]

    def forget_order(self, i):
        """the order of dims of object i is no longer tracked: drop and let later steps pick others"""
        self.meta.pop(i, None)

    def resort(self, i):
        self.meta.pop(i, None)


def history(rng, length, allow=None, cplx=None, max_objs=4):
    h = Hist(rng, max_objs=max_objs, cplx=cplx)
    h.fresh(attrs=rng.random() < 0.5, hist=rng.randint(0, 3))
    if rng.random() < 0.5:
        h.fresh()
    for _ in range(length):
        h.step(allow)
        if not h.meta:
            h.fresh()
    return h.ops
