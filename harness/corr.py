"""The correspondence run: same op streams through the real code and the Lean model."""
import json, time
from common import run_model, diff_line
from implstore import ImplStore


def run_impl(streams, hooks=None):
    """returns (flat op list, impl output lines, index ranges per stream, hook findings)"""
    flat, outs, spans, findings = [], [], [], []
    for si, ops in enumerate(streams):
        st = ImplStore()
        start = len(flat)
        flat.append({"op": "reset"})
        outs.append({"outcome": "ok", "store": {}})
        for oi, op in enumerate(ops):
            pres = []
            for h in hooks or []:
                try:
                    pres.append(h.pre(op, st))
                except Exception:  # an oracle that cannot read a broken object skips this step
                    pres.append(None)
            line = st.apply(op)
            flat.append(op)
            outs.append(line)
            if hooks:
                for h, pre in zip(hooks, pres):
                    try:
                        msgs = h.post(op, st, line, pre) or []
                    except Exception:
                        msgs = []
                    for msg in msgs:
                        findings.append({"stream": si, "op_index": oi, "clause": msg, "ops": ops[: oi + 1]})
        spans.append((start, len(flat)))
    return flat, outs, spans, findings


def correspond(streams, hooks=None):
    """returns dict(evaluations, mismatches=[...], findings=[...], model_s)"""
    flat, impl_out, spans, findings = run_impl(streams, hooks)
    model_out, model_s = run_model(flat)
    mismatches = []
    skipped_nonfinite = 0
    for si, (a, b) in enumerate(spans):
        for k in range(a + 1, b):
            m = model_out[k]
            if str(m.get("outcome", "")).startswith("driver-error"):
                mismatches.append({"stream": si, "op_index": k - a - 1, "diffs": [m["outcome"]],
                                   "ops": streams[si][: k - a], "model": m, "impl": impl_out[k]})
                break
            if "nonfinite" in json.dumps(impl_out[k]):
                skipped_nonfinite += 1
                break   # inf/nan appeared (e.g. division by zero): the exact model does not follow further
            d = diff_line(m, impl_out[k])
            if d:
                mismatches.append({"stream": si, "op_index": k - a - 1, "diffs": d,
                                   "ops": streams[si][: k - a], "model": m, "impl": impl_out[k]})
                break
    return {"evaluations": len(flat) - len(streams), "mismatches": mismatches,
            "outcomes": [o["outcome"] for o in impl_out], "skipped_nonfinite": skipped_nonfinite,
            "findings": findings, "model_s": model_s, "streams": len(streams)}
