"""Common post-processing of a correspondence run into the result dict check_main expects."""
import json
from common import stable_hash
from corr import correspond


def finish(pid, r, streams, rule, clause_prefix, nontrivial, extra=None):
    seen = set()
    nt = 0
    for ops in streams:
        h = stable_hash(ops)
        if h in seen:
            continue
        seen.add(h)
        try:
            if nontrivial(ops):
                nt += 1
        except Exception:
            pass
    impl_failures = []
    seen_keys = set()
    for f in r["findings"]:
        if not f["clause"].startswith(tuple(clause_prefix)):
            continue
        if f["clause"] in seen_keys:
            continue
        seen_keys.add(f["clause"])
        impl_failures.append({"key": f["clause"], "clause": f["clause"], "ops": f["ops"]})
    # a mismatch in a stream where an oracle (of any property) also failed is explained by that failure
    bad_streams = {f["stream"] for f in r["findings"]}
    mism = []
    for m in r["mismatches"]:
        m = dict(m)
        m["explained_by_known"] = m["stream"] in bad_streams
        mism.append(m)
    dist = {}
    for ops in streams:
        for op in ops:
            k = op["op"] + ("." + op["f"] if "f" in op else "")
            dist[k] = dist.get(k, 0) + 1
    outcomes = {}
    for o in r.get("outcomes", []):
        outcomes[o] = outcomes.get(o, 0) + 1
    res = {
        "evaluations": r["evaluations"], "distinct_nontrivial": nt, "rule": rule,
        "samples": [streams[0], streams[len(streams) // 2], streams[-1]] if streams else [],
        "traces_validated": r["streams"] - len({m["stream"] for m in r["mismatches"]}),
        "mismatches": mism, "impl_failures": impl_failures,
        "distribution": {"ops": dist, "streams": len(streams), "outcomes": outcomes},
    }
    if extra:
        res.update(extra)
    return res


class StreamProperty:
    """a property decided by op streams + oracle hooks"""

    def __init__(self, pid, hooks, streams_fn, rule, prefixes, nontrivial, extra=None):
        self.pid, self.hooks, self.streams_fn, self.rule = pid, hooks, streams_fn, rule
        self.prefixes, self.nontrivial, self.extra = prefixes, nontrivial, extra or {}

    def run(self, tier, seed, escalate=False):
        if escalate:
            tier = "thorough"
        ss = self.streams_fn(tier, seed)
        r = correspond(ss, hooks=[h() for h in self.hooks])
        return finish(self.pid, r, ss, self.rule, self.prefixes, self.nontrivial, self.extra)

    def replay(self, rp):
        ops = rp.get("ops") or rp["theorem_or_stream"][0]["ops"]
        r = correspond([ops], hooks=[h() for h in self.hooks])
        fs = [f["clause"] for f in r["findings"] if f["clause"].startswith(tuple(self.prefixes))]
        return {"fails": bool(r["mismatches"] or fs), "mismatches": [m["diffs"] for m in r["mismatches"]],
                "findings": fs}
