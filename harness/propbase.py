"""Common post-processing of a correspondence run into the result dict check_main expects."""
import json
from common import stable_hash


def finish(pid, r, streams, rule, clause_prefix, nontrivial, extra=None):
    seen = set()
    nt = 0
    for ops in streams:
        h = stable_hash(ops)
        if h in seen:
            continue
        seen.add(h)
        try:
            if nontrivial(ops):
                nt += 1
        except Exception:
            pass
    impl_failures = []
    seen_keys = set()
    for f in r["findings"]:
        if not f["clause"].startswith(tuple(clause_prefix)):
            continue
        if f["clause"] in seen_keys:
            continue
        seen_keys.add(f["clause"])
        impl_failures.append({"key": f["clause"], "clause": f["clause"], "ops": f["ops"]})
    # a mismatch in a stream where an oracle also failed is explained by that failure
    bad_streams = {f["stream"] for f in r["findings"]}
    mism = []
    for m in r["mismatches"]:
        m = dict(m)
        m["explained_by_known"] = m["stream"] in bad_streams
        mism.append(m)
    dist = {}
    for ops in streams:
        for op in ops:
            k = op["op"] + ("." + op["f"] if "f" in op else "")
            dist[k] = dist.get(k, 0) + 1
    res = {
        "evaluations": r["evaluations"], "distinct_nontrivial": nt, "rule": rule,
        "samples": [streams[0], streams[len(streams) // 2], streams[-1]],
        "traces_validated": r["streams"] - len({m["stream"] for m in r["mismatches"]}),
        "mismatches": mism, "impl_failures": impl_failures,
        "distribution": {"ops": dist, "streams": len(streams)},
    }
    if extra:
        res.update(extra)
    return res
