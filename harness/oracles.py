"""Model-independent oracles: each evaluates a clause of a property directly on the real code."""
import copy
from common import np, dnp, consistent, canon_obj, frac


def label_dict(d):
    """{frozenset((dim, coord)) : value} — the order-free reading of a real object"""
    dims = list(d.dims)
    coords = [np.asarray(c).tolist() for c in d.coords.coords]
    vals = np.asarray(d.values)
    out = {}
    if vals.ndim != len(dims) or any(len(c) != n for c, n in zip(coords, vals.shape)):
        return None
    for idx in np.ndindex(*vals.shape):
        key = frozenset((dims[k], coords[k][i]) for k, i in enumerate(idx))
        v = vals[idx].item()
        if key in out:
            return None  # labels not unique: oracle not applicable
        out[key] = v
    return out


def dict_close(a, b):
    if a is None or b is None:
        return False
    if set(a) != set(b):
        return False
    return all(abs(a[k] - b[k]) <= 1e-9 * max(1.0, abs(a[k])) for k in a)


class ConsistencyOracle:
    """C01: every object in the store is consistent after every successful step and no
    'not consistent' warning was emitted (objects in the documented unfolded state are skipped)"""

    def pre(self, op, st):
        return None

    def post(self, op, st, line, pre):
        out = []
        if op["op"] in ("unfold",):
            return out
        for k, d in st.objs.items():
            if not d._is_folded:
                continue
            if not consistent(d):
                out.append("C01:inconsistent-object:%s" % op_sig(op))
                break
        if st.warned_inconsistent and line["outcome"] == "ok":
            out.append("C01:inconsistency-warning:%s" % op_sig(op))
        return out


def op_sig(op):
    """short call-site signature used in finding keys"""
    s = op["op"]
    if "f" in op:
        s += "." + str(op["f"])
    if op["op"] == "np_reduce":
        ax = op.get("axis")
        s += ":axis=" + ("none" if ax is None else "name" if isinstance(ax, str) else "int")
    return s


class LabelOracle:
    """C02: relabelling operations keep every value attached to its labels"""
    SAME = ("reorder", "sort_dims", "sort", "fold")

    def pre(self, op, st):
        o = op["op"]
        if o in self.SAME + ("rename", "new_dim", "squeeze", "concatenate", "copy", "unfold", "split"):
            snap = {}
            for key in ("obj", "other"):
                if key in op and op[key] in st.objs and st.objs[op[key]]._is_folded:
                    snap[key] = label_dict(st.objs[op[key]])
            if o == "split" and op["obj"] in st.objs and op["dim"] in st.objs[op["obj"]].dims:
                snap["split_coord"] = np.asarray(st.objs[op["obj"]].coords[op["dim"]]).tolist()
            if o == "fold" and op["obj"] in st.objs:
                snap["obj"] = getattr(st.objs[op["obj"]], "_verif_prefold", None)
            return snap
        if o == "concat":
            return {"objs": [label_dict(st.objs[i]) for i in op["objs"] if i in st.objs]}
        return None

    def post(self, op, st, line, pre):
        o = op["op"]
        if line["outcome"] != "ok" or pre is None:
            return []
        sig = op_sig(op)
        if o not in ("unfold", "concat") and pre.get("obj") is None:
            return []
        if o == "unfold":
            # remember the folded reading so that the matching fold can be checked
            st.objs[op["obj"]]._verif_prefold = pre.get("obj")
            return []
        if o in self.SAME:
            if pre.get("obj") is None:
                return []
            return [] if dict_close(pre["obj"], label_dict(st.objs[op["obj"]])) else ["C02:labels-moved:" + sig]
        if o == "copy":
            return [] if dict_close(pre["obj"], label_dict(st.objs[op["out"]])) else ["C02:labels-moved:" + sig]
        if o == "rename":
            want = {frozenset((op["new"] if d == op["dim"] else d, c) for d, c in k): v
                    for k, v in pre["obj"].items()}
            return [] if dict_close(want, label_dict(st.objs[op["obj"]])) else ["C02:labels-moved:" + sig]
        if o == "new_dim":
            from fractions import Fraction
            c = float(Fraction(op["coord"]))
            want = {frozenset(set(k) | {(op["dim"], c)}): v for k, v in pre["obj"].items()}
            return [] if dict_close(want, label_dict(st.objs[op["obj"]])) else ["C02:labels-moved:" + sig]
        if o == "squeeze":
            d = st.objs[op["obj"]]
            keep = set(d.dims)
            want = {frozenset(x for x in k if x[0] in keep): v for k, v in pre["obj"].items()}
            return [] if dict_close(want, label_dict(d)) else ["C02:labels-moved:" + sig]
        if o == "concatenate":
            if pre.get("obj") is None or pre.get("other") is None:
                return []
            want = dict(pre["obj"]); want.update(pre["other"])
            if len(want) != len(pre["obj"]) + len(pre["other"]):
                return []
            return [] if dict_close(want, label_dict(st.objs[op["obj"]])) else ["C02:labels-moved:" + sig]
        if o == "concat":
            d = st.objs[op["out"]]
            newc = np.asarray(d.coords[op["dim"]]).tolist()
            want = {}
            for j, ld in enumerate(pre["objs"]):
                if ld is None:
                    return []
                for k, v in ld.items():
                    want[frozenset(set(k) | {(op["dim"], newc[j])})] = v
            return [] if dict_close(want, label_dict(d)) else ["C02:labels-moved:" + sig]
        if o == "split":
            # element at position p of `dim` moves to (dim = coord[p // m], new = c[p % m])
            from fractions import Fraction
            d = st.objs[op["obj"]]
            c = [float(Fraction(x)) for x in op["coord"]]
            src, sc = pre.get("obj"), pre.get("split_coord")
            if src is None or sc is None:
                return []
            m = len(c)
            want = {}
            for k, v in src.items():
                kk = dict(k)
                p = sc.index(kk[op["dim"]])
                kk[op["dim"]] = sc[p // m]
                kk[op["new"]] = c[p % m]
                want[frozenset(kk.items())] = v
            return [] if dict_close(want, label_dict(d)) else ["C02:labels-moved:" + sig]
        return []
