"""Model-independent oracles: each evaluates a clause of a property directly on the real code."""
import copy, random
from common import np, dnp, consistent, canon_obj, frac


def label_dict(d):
    """{frozenset((dim, coord)) : value} — the order-free reading of a real object"""
    dims = list(d.dims)
    coords = [np.asarray(c).tolist() for c in d.coords.coords]
    vals = np.asarray(d.values)
    out = {}
    if vals.ndim != len(dims) or any(len(c) != n for c, n in zip(coords, vals.shape)):
        return None
    for idx in np.ndindex(*vals.shape):
        key = frozenset((dims[k], coords[k][i]) for k, i in enumerate(idx))
        v = vals[idx].item()
        if key in out:
            return None  # labels not unique: oracle not applicable
        out[key] = v
    return out


def dict_close(a, b):
    if a is None or b is None:
        return False
    if set(a) != set(b):
        return False
    return all(abs(a[k] - b[k]) <= 1e-9 * max(1.0, abs(a[k])) for k in a)


class ConsistencyOracle:
    """C01: every object in the store is consistent after every successful step and no
    'not consistent' warning was emitted (objects in the documented unfolded state are skipped)"""

    def pre(self, op, st):
        return None

    def post(self, op, st, line, pre):
        out = []
        if op["op"] in ("unfold",):
            return out
        for k, d in st.objs.items():
            if not d._is_folded:
                continue
            if not consistent(d):
                out.append("C01:inconsistent-object:%s" % op_sig(op))
                break
        if st.warned_inconsistent and line["outcome"] == "ok":
            out.append("C01:inconsistency-warning:%s" % op_sig(op))
        return out


def op_sig(op):
    """short call-site signature used in finding keys"""
    s = op["op"]
    if "f" in op:
        s += "." + str(op["f"])
    if op["op"] == "np_reduce":
        ax = op.get("axis")
        s += ":axis=" + ("none" if ax is None else "name" if isinstance(ax, str) else "tuple" if isinstance(ax, (list, tuple)) else "int")
    return s


class LabelOracle:
    """C02: relabelling operations keep every value attached to its labels"""
    SAME = ("reorder", "sort_dims", "sort", "fold")

    def pre(self, op, st):
        o = op["op"]
        if o in self.SAME + ("rename", "new_dim", "squeeze", "concatenate", "copy", "unfold", "split"):
            snap = {}
            for key in ("obj", "other"):
                if key in op and op[key] in st.objs and st.objs[op[key]]._is_folded:
                    snap[key] = label_dict(st.objs[op[key]])
            if o == "split" and op["obj"] in st.objs and op["dim"] in st.objs[op["obj"]].dims:
                snap["split_coord"] = np.asarray(st.objs[op["obj"]].coords[op["dim"]]).tolist()
            if o == "fold" and op["obj"] in st.objs:
                snap["obj"] = getattr(st.objs[op["obj"]], "_verif_prefold", None)
            return snap
        if o == "concat":
            return {"objs": [label_dict(st.objs[i]) for i in op["objs"] if i in st.objs]}
        return None

    def post(self, op, st, line, pre):
        o = op["op"]
        if line["outcome"] != "ok" or pre is None:
            return []
        sig = op_sig(op)
        if o not in ("unfold", "concat") and pre.get("obj") is None:
            return []
        if o == "unfold":
            # remember the folded reading so that the matching fold can be checked
            st.objs[op["obj"]]._verif_prefold = pre.get("obj")
            return []
        if o in self.SAME:
            if pre.get("obj") is None:
                return []
            return [] if dict_close(pre["obj"], label_dict(st.objs[op["obj"]])) else ["C02:labels-moved:" + sig]
        if o == "copy":
            return [] if dict_close(pre["obj"], label_dict(st.objs[op["out"]])) else ["C02:labels-moved:" + sig]
        if o == "rename":
            want = {frozenset((op["new"] if d == op["dim"] else d, c) for d, c in k): v
                    for k, v in pre["obj"].items()}
            return [] if dict_close(want, label_dict(st.objs[op["obj"]])) else ["C02:labels-moved:" + sig]
        if o == "new_dim":
            from fractions import Fraction
            c = float(Fraction(op["coord"]))
            want = {frozenset(set(k) | {(op["dim"], c)}): v for k, v in pre["obj"].items()}
            return [] if dict_close(want, label_dict(st.objs[op["obj"]])) else ["C02:labels-moved:" + sig]
        if o == "squeeze":
            d = st.objs[op["obj"]]
            keep = set(d.dims)
            want = {frozenset(x for x in k if x[0] in keep): v for k, v in pre["obj"].items()}
            return [] if dict_close(want, label_dict(d)) else ["C02:labels-moved:" + sig]
        if o == "concatenate":
            if pre.get("obj") is None or pre.get("other") is None:
                return []
            want = dict(pre["obj"]); want.update(pre["other"])
            if len(want) != len(pre["obj"]) + len(pre["other"]):
                return []
            return [] if dict_close(want, label_dict(st.objs[op["obj"]])) else ["C02:labels-moved:" + sig]
        if o == "concat":
            d = st.objs[op["out"]]
            newc = np.asarray(d.coords[op["dim"]]).tolist()
            want = {}
            for j, ld in enumerate(pre["objs"]):
                if ld is None:
                    return []
                for k, v in ld.items():
                    want[frozenset(set(k) | {(op["dim"], newc[j])})] = v
            return [] if dict_close(want, label_dict(d)) else ["C02:labels-moved:" + sig]
        if o == "split":
            # element at position p of `dim` moves to (dim = coord[p // m], new = c[p % m])
            from fractions import Fraction
            d = st.objs[op["obj"]]
            c = [float(Fraction(x)) for x in op["coord"]]
            src, sc = pre.get("obj"), pre.get("split_coord")
            if src is None or sc is None:
                return []
            m = len(c)
            want = {}
            for k, v in src.items():
                kk = dict(k)
                p = sc.index(kk[op["dim"]])
                kk[op["dim"]] = sc[p // m]
                kk[op["new"]] = c[p % m]
                want[frozenset(kk.items())] = v
            return [] if dict_close(want, label_dict(d)) else ["C02:labels-moved:" + sig]
        return []


# ------------------------------------------------------------------------------------ C03
def deep_snap(d):
    """everything observable about an object, by value"""
    return {
        "dims": list(d.dims),
        "coords": [np.array(c, copy=True) for c in d.coords.coords],
        "values": np.array(d.values, copy=True),
        "attrs": copy.deepcopy(d.attrs),
        "dattrs": copy.deepcopy(getattr(d, "dnplab_attrs", {})),
        "hist": copy.deepcopy(getattr(d, "proc_attrs", [])),
        "folded": d._is_folded,
    }


def _eq(a, b):
    if isinstance(a, np.ndarray) or isinstance(b, np.ndarray):
        a, b = np.asarray(a), np.asarray(b)
        return a.shape == b.shape and a.dtype == b.dtype and bool(np.array_equal(a, b, equal_nan=True)) if a.dtype.kind in "fc" else (a.shape == b.shape and bool(np.array_equal(a, b)))
    if isinstance(a, dict) and isinstance(b, dict):
        return list(a.keys()) == list(b.keys()) and all(_eq(a[k], b[k]) for k in a)
    if isinstance(a, (list, tuple)) and isinstance(b, (list, tuple)):
        return type(a) == type(b) and len(a) == len(b) and all(_eq(x, y) for x, y in zip(a, b))
    try:
        return bool(a == b)
    except Exception:
        return False


def snap_diff(s0, s1):
    out = []
    for k in s0:
        if k == "coords":
            if len(s0[k]) != len(s1[k]) or not all(_eq(x, y) for x, y in zip(s0[k], s1[k])):
                out.append(k)
        elif not _eq(s0[k], s1[k]):
            out.append(k)
    return out


RECEIVER_OPS = {"reorder", "sort_dims", "rename", "sort", "new_dim", "squeeze", "split", "concatenate",
                "unfold", "fold", "setitem", "set_attr", "set_dattr", "add_hist", "set_value", "set_coord"}


def shares_state(a, b):
    """names of mutable parts two distinct objects share"""
    out = []
    if a.attrs is b.attrs:
        out.append("attrs")
    if getattr(a, "dnplab_attrs", None) is getattr(b, "dnplab_attrs", 0):
        out.append("dnplab_attrs")
    if getattr(a, "proc_attrs", None) is getattr(b, "proc_attrs", 0):
        out.append("proc_attrs")
    if a.coords is b.coords or a.coords.coords is b.coords.coords or a.coords.dims is b.coords.dims:
        out.append("coords")
    try:
        if np.asarray(a.values).size and np.shares_memory(a.values, b.values):
            out.append("values")
        for ca in a.coords.coords:
            for cb in b.coords.coords:
                if np.asarray(ca).size and np.shares_memory(ca, cb):
                    out.append("coord-array")
    except Exception:
        pass
    for k, v in a.attrs.items():
        if isinstance(v, (list, dict, np.ndarray)) and k in b.attrs and b.attrs[k] is v:
            out.append("attrs[%s]" % k)
    return sorted(set(out))


def hist_arrays(d):
    """every NumPy array reachable from the parameters recorded in an object's processing history"""
    out = []

    def walk(x):
        if isinstance(x, np.ndarray):
            out.append(x)
        elif isinstance(x, dict):
            for v in x.values():
                walk(v)
        elif isinstance(x, (list, tuple)):
            for v in x:
                walk(v)
    for ent in getattr(d, "proc_attrs", []) or []:
        walk(ent)
    return out


def history_aliases_live(d):
    """a recorded parameter that IS one of the object's live arrays: a later in-place step rewrites the log"""
    try:
        live = [np.asarray(d.values)] + [np.asarray(c) for c in d.coords.coords]
        return any(h.size and l.size and np.shares_memory(h, l) for h in hist_arrays(d) for l in live)
    except Exception:
        return False


class FrameOracle:
    """C03: apart from the receiver of an in-place method nothing in the store changes,
    whether the call returns or raises; a raising in-place call leaves the receiver as it was;
    no two distinct objects share mutable state"""

    def pre(self, op, st):
        return {k: deep_snap(v) for k, v in st.objs.items()}

    def post(self, op, st, line, pre):
        out = []
        sig = op_sig(op)
        recv = op.get("obj") if op["op"] in RECEIVER_OPS else None
        # plain arrays passed as arguments must not be aliased by any object afterwards
        for arr in getattr(st, "last_args", []):
            for k, d in st.objs.items():
                try:
                    if arr.size and (np.shares_memory(arr, d.values) or any(np.shares_memory(arr, c) for c in d.coords.coords)):
                        out.append("C03:shared-state:%s:argument-array" % sig)
                    if arr.size and any(h.size and np.shares_memory(arr, h) for h in hist_arrays(d)):
                        out.append("C03:shared-state:%s:argument-array-in-history" % sig)
                except Exception:
                    pass
        for k, s0 in pre.items():
            if k not in st.objs:
                continue
            if k == recv and line["outcome"] == "ok":
                continue
            if k == op.get("out") or (op["op"] == "new" and k == op.get("id")):
                continue
            d = snap_diff(s0, deep_snap(st.objs[k]))
            if d:
                kind = "receiver-changed-on-raise" if k == recv else "argument-modified"
                out.append("C03:%s:%s:%s" % (kind, sig, "+".join(d)))
        ids = sorted(st.objs)
        for i in range(len(ids)):
            for j in range(i + 1, len(ids)):
                a, b = st.objs[ids[i]], st.objs[ids[j]]
                if a is b:
                    continue
                sh = shares_state(a, b)
                if sh:
                    out.append("C03:shared-state:%s:%s" % (sig, "+".join(sh)))
        return out


# ------------------------------------------------------------------------------------ C11
class HistoryOracle:
    """C11: a processing step's output history = the input's history (unchanged, in order)
    followed by at least one new entry; the input's own history is not altered"""
    STEPS = ("np_unary", "np_binary", "np_scalar", "np_reduce", "proc")

    def pre(self, op, st):
        if op["op"] not in self.STEPS:
            return None
        key = "obj" if "obj" in op else "lhs"
        if op.get(key) not in st.objs:
            return None
        return copy.deepcopy(st.objs[op[key]].proc_attrs)

    def post(self, op, st, line, pre):
        if pre is None or line["outcome"] != "ok" or op.get("out") not in st.objs:
            return []
        if op["op"] == "np_reduce" and op.get("axis") is None:
            return []
        sig = op_sig(op)
        key = "obj" if "obj" in op else "lhs"
        out = []
        res = st.objs[op["out"]].proc_attrs
        src = st.objs[op[key]].proc_attrs
        if not _eq(list(src), list(pre)):
            out.append("C11:input-history-altered:" + sig)
        if history_aliases_live(st.objs[op["out"]]):
            out.append("C11:history-aliases-live-array:" + sig)
        if not _eq(list(res[: len(pre)]), list(pre)):
            out.append("C11:prefix-lost:" + sig)
        elif len(res) <= len(pre):
            out.append("C11:no-new-entry:" + sig)
        else:
            ent = res[len(pre)]
            if not (isinstance(ent, tuple) and len(ent) == 2 and isinstance(ent[0], str) and ent[0] and isinstance(ent[1], dict)):
                out.append("C11:malformed-entry:" + sig)
        return out


# ------------------------------------------------------------------------------------ C04
class ArithOracle:
    """C04: element-wise by label, union dims, mismatch raises, scalar/array = NumPy"""
    FN = {"add": lambda x, y: x + y, "sub": lambda x, y: x - y, "mul": lambda x, y: x * y,
          "truediv": lambda x, y: x / y}

    def pre(self, op, st):
        o = op["op"]
        if o == "binop":
            a, b = st.objs.get(op["lhs"]), st.objs.get(op["rhs"])
            if a is None or b is None:
                return None
            return {"a": label_dict(a), "b": label_dict(b), "adims": list(a.dims), "bdims": list(b.dims),
                    "acoords": {d: np.array(a.coords[d]) for d in a.dims},
                    "bcoords": {d: np.array(b.coords[d]) for d in b.dims},
                    "snaps": {i: deep_snap(st.objs[i]) for i in {op["lhs"], op["rhs"]} if i != op.get("out")}}
        if o in ("scalarop", "arrayop"):
            a = st.objs.get(op["obj"])
            return None if a is None else {"s": deep_snap(a)}
        return None

    def post(self, op, st, line, pre):
        if pre is None:
            return []
        o, sig = op["op"], op_sig(op)
        if o == "binop":
            # an operand re-laid-out by the operation gives every LATER use of it values at other labels
            for i, sn in pre["snaps"].items():
                ch = snap_diff(sn, deep_snap(st.objs[i])) if i in st.objs else ["gone"]
                if ch:
                    return ["C04:operand-changed-by-operation:%s:%s" % ("+".join(ch), sig)]
            shared = [d for d in pre["adims"] if d in pre["bdims"]]
            mismatch = any(len(pre["acoords"][d]) != len(pre["bcoords"][d]) or
                           not np.allclose(pre["acoords"][d], pre["bcoords"][d]) for d in shared)
            if mismatch:
                return [] if line["outcome"].startswith("raise") else ["C04:mismatch-not-refused:" + sig]
            if line["outcome"] != "ok":
                return ["C04:unexpected-raise:" + sig]
            r = st.objs[op["out"]]
            want_dims = pre["adims"] + [d for d in pre["bdims"] if d not in pre["adims"]]
            if list(r.dims) != want_dims:
                return ["C04:dims-not-union:" + sig]
            rd = label_dict(r)
            if rd is None or pre["a"] is None or pre["b"] is None:
                return ["C04:result-unreadable:" + sig]
            f = self.FN[op["f"]]
            aset, bset = set(pre["adims"]), set(pre["bdims"])
            for key, v in rd.items():
                ka = frozenset(x for x in key if x[0] in aset)
                kb = frozenset(x for x in key if x[0] in bset)
                if ka not in pre["a"] or kb not in pre["b"]:
                    return ["C04:label-missing:" + sig]
                w = f(pre["a"][ka], pre["b"][kb])
                if abs(v - w) > 1e-9 * max(1.0, abs(w)):
                    return ["C04:wrong-element:" + sig]
            n = 1
            for d in want_dims:
                n *= len(pre["acoords"][d]) if d in pre["acoords"] else len(pre["bcoords"][d])
            if len(rd) != n:
                return ["C04:element-count:" + sig]
            return []
        if o in ("scalarop", "arrayop"):
            if line["outcome"] != "ok":
                return []
            from implstore import to_val, to_arr
            s = pre["s"]
            other = to_val(op["scalar"]) if o == "scalarop" else to_arr(op["values"], op["shape"])
            f = self.FN[op["f"]]
            want = f(other, s["values"]) if op.get("refl") else f(s["values"], other)
            r = st.objs[op["out"]]
            ok = (list(r.dims) == s["dims"] and len(r.coords.coords) == len(s["coords"]) and
                  all(_eq(np.asarray(x), y) for x, y in zip(r.coords.coords, s["coords"])) and
                  np.asarray(r.values).shape == want.shape and np.allclose(r.values, want, rtol=1e-12, atol=0))
            return [] if ok else ["C04:plain-operand:" + sig]
        return []


# ------------------------------------------------------------------------------------ C10
class NumpyOracle:
    """C10: NumPy's own answer on each operand's values, labels kept / exactly one dim removed"""

    def pre(self, op, st):
        o = op["op"]
        if o in ("np_unary", "np_scalar", "np_reduce"):
            a = st.objs.get(op["obj"])
            return None if a is None else {"a": deep_snap(a)}
        if o == "np_binary":
            a, b = st.objs.get(op["lhs"]), st.objs.get(op["rhs"])
            return None if a is None or b is None else {"a": deep_snap(a), "b": deep_snap(b)}
        return None

    def post(self, op, st, line, pre):
        if pre is None:
            return []
        from implstore import NPUN, NPBIN, NPRED, to_val
        o, sig = op["op"], op_sig(op)
        a = pre["a"]

        def same_labels(r, dims, coords):
            return (list(r.dims) == dims and len(r.coords.coords) == len(coords) and
                    all(_eq(np.asarray(x), y) for x, y in zip(r.coords.coords, coords)))

        try:
            if o == "np_unary":
                want = NPUN[op["f"]](a["values"])
            elif o == "np_scalar":
                c = to_val(op["scalar"])
                want = NPBIN[op["f"]](c, a["values"]) if op.get("refl") else NPBIN[op["f"]](a["values"], c)
            elif o == "np_binary":
                want = NPBIN[op["f"]](a["values"], pre["b"]["values"])
            else:
                ax = op.get("axis")
                if ax is None:
                    want = NPRED[op["f"]](a["values"])
                elif isinstance(ax, (list, tuple)):
                    ks = tuple(a["dims"].index(x) if isinstance(x, str) else x for x in ax)
                    want = NPRED[op["f"]](a["values"], axis=ks)
                else:
                    k = a["dims"].index(ax) if isinstance(ax, str) else ax
                    want = NPRED[op["f"]](a["values"], axis=k)
        except Exception:
            return [] if line["outcome"].startswith("raise") else ["C10:numpy-raises-but-call-returned:" + sig]
        if line["outcome"] != "ok":
            return ["C10:unexpected-raise:" + sig]
        if o == "np_reduce" and (op.get("axis") is None or len(a["dims"]) == 1 or np.asarray(want).ndim == 0):
            got = line.get("ret")
            from common import parse_g
            if got is None:
                return ["C10:full-reduction-not-scalar:" + sig]
            w = complex(np.asarray(want).item())
            return [] if abs(parse_g(got) - w) <= 1e-9 * max(1.0, abs(w)) else ["C10:wrong-value:" + sig]
        r = st.objs.get(op.get("out"))
        if r is None:
            return ["C10:no-result:" + sig]
        if np.asarray(r.values).shape != np.asarray(want).shape or not np.allclose(r.values, want, rtol=1e-12, atol=0):
            return ["C10:wrong-value:" + sig]
        if o == "np_reduce":
            ax = op["axis"]
            axl = list(ax) if isinstance(ax, (list, tuple)) else [ax]
            gone = {(a["dims"].index(x) if isinstance(x, str) else x) % len(a["dims"]) for x in axl}
            dims = [x for k, x in enumerate(a["dims"]) if k not in gone]
            coords = [x for k, x in enumerate(a["coords"]) if k not in gone]
        else:
            dims, coords = a["dims"], a["coords"]
        return [] if same_labels(r, dims, coords) else ["C10:labels-wrong:" + sig]


# ------------------------------------------------------------------------------------ C05
class IndexOracle:
    """C05: the selection specification of the property, evaluated on the real result"""

    def pre(self, op, st):
        if op["op"] not in ("getitem", "setitem"):
            return None
        a = st.objs.get(op["obj"])
        return None if a is None else {"a": deep_snap(a), "obj": a.copy() if op["op"] == "setitem" else None}

    @staticmethod
    def expected_positions(c, sel):
        """(allowed_min, must_contain, exact) position sets from the property statement"""
        from fractions import Fraction
        n = len(c)
        near = lambda t: int(np.argmin(np.abs(t - c)))
        if "int" in sel:
            i = sel["int"]
            if -n <= i < n:
                return {"exact": [i % n]}
            return {"any": True}
        if "flt" in sel:
            return {"exact": [near(float(Fraction(sel["flt"])))]}
        if "tup1" in sel:
            return {"exact": [near(float(Fraction(sel["tup1"])))]}
        if "slice" in sel:
            return {"exact": list(range(n))[slice(*sel["slice"])]}
        lo, hi = (float(Fraction(x)) for x in sel["range"])
        i, j = near(lo), near(hi)
        mono = bool(np.all(np.diff(c) > 0) or np.all(np.diff(c) < 0)) or n == 1
        return {"between": (min(i, j), max(i, j)), "mono": mono}

    def post(self, op, st, line, pre):
        if pre is None:
            return []
        o, sig = op["op"], op_sig(op)
        a = pre["a"]
        sels = {}
        for d, s in op["sel"]:
            sels[d] = s
        if any(d not in a["dims"] for d in sels):
            return [] if line["outcome"].startswith("raise") else ["C05:unknown-dim-accepted:" + sig]
        kinds = "+".join(sorted(next(iter(s)) for s in sels.values()))
        if o == "getitem":
            if line["outcome"] != "ok":
                bad = any("slice" in s and s["slice"][2] == 0 for s in sels.values())
                return [] if bad else ["C05:unexpected-raise:%s:%s" % (sig, kinds)]
            r = st.objs[op["out"]]
            if list(r.dims) != a["dims"]:
                return ["C05:dims-changed:%s:%s" % (sig, kinds)]
            pos = []
            for k, d in enumerate(a["dims"]):
                src = a["coords"][k].tolist()
                got = np.asarray(r.coords.coords[k]).tolist()
                try:
                    p = [src.index(x) for x in got]
                except ValueError:
                    return ["C05:coord-not-from-source:%s:%s" % (sig, kinds)]
                if d not in sels and p != list(range(len(src))):
                    return ["C05:unselected-dim-touched:%s:%s" % (sig, kinds)]
                if d in sels:
                    e = self.expected_positions(a["coords"][k], sels[d])
                    if "exact" in e and p != e["exact"]:
                        return ["C05:wrong-positions:%s:%s" % (sig, next(iter(sels[d])))]
                    if "between" in e and e["mono"]:
                        lo, hi = e["between"]
                        ok = (len(p) > 0 and p == list(range(p[0], p[0] + len(p))) and p[0] >= lo and p[-1] <= hi
                              and all(q in p for q in range(lo + 1, hi)))
                        if not ok:
                            asc = "asc" if len(src) < 2 or src[-1] > src[0] else "desc"
                            return ["C05:range-run:%s:%s" % (sig, asc)]
                pos.append(p)
            want = a["values"][np.ix_(*pos)] if pos else a["values"]
            if np.asarray(r.values).shape != want.shape or not np.array_equal(np.asarray(r.values), want):
                return ["C05:values-cut-differently:%s:%s" % (sig, kinds)]
            return []
        # setitem: writes exactly the positions that reading returns
        if line["outcome"] != "ok":
            return []
        args = []
        from implstore import to_sel
        for d, s in op["sel"]:
            args += [d, to_sel(s)]
        try:
            read = pre["obj"][tuple(args)]
        except Exception:
            return ["C05:write-accepts-what-read-rejects:%s:%s" % (sig, kinds)]
        now = np.asarray(st.objs[op["obj"]].values)
        changed = now != a["values"]
        # positions read: by coordinates of the read result
        pos = []
        for k, d in enumerate(a["dims"]):
            src = a["coords"][k].tolist()
            pos.append([src.index(x) for x in np.asarray(read.coords.coords[k]).tolist()])
        mask = np.zeros(a["values"].shape, dtype=bool)
        if all(len(p) for p in pos):
            mask[np.ix_(*pos)] = True
        if not np.array_equal(mask, changed):
            return ["C05:write-read-disagree:%s:%s" % (sig, kinds)]
        return []


# ------------------------------------------------------------------------------------ C08
class PermOracle:
    """C08: f(permute x) = permute(f x) label for label, and for trace-wise functions
    f(x)[others = k] = f(x[others = k])"""
    TRACEWISE = {"integrate", "cumulative_integrate", "left_shift", "interp", "apodize", "phase", "phase_cycle",
                 "fourier_transform", "inverse_fourier_transform", "trace_local", "normalize", "reference"}
    NOT_LOCAL = {"ndalign"}

    def pre(self, op, st):
        if op["op"] != "proc" or op["obj"] not in st.objs:
            return None
        return st.objs[op["obj"]].copy()

    def post(self, op, st, line, pre):
        if pre is None or line["outcome"] != "ok" or not pre._is_folded:
            return []
        f, kw = op["f"], op["kw"]
        sig = op_sig(op) + (":" + kw["func"] if f == "trace_local" else "")
        per_trace = isinstance(kw.get("p0"), list) or isinstance(kw.get("p1"), list)
        out = []
        res = st.objs[op["out"]]
        want = label_dict(res)
        if want is None:
            return ["C08:result-unreadable:" + sig]
        dims = list(pre.dims)
        # (a) every rotation of the axis order (and the reversal)
        if len(dims) >= 2 and not per_trace:
            orders = [dims[k:] + dims[:k] for k in range(1, len(dims))] + [list(reversed(dims))]
            for o in orders:
                x2 = pre.copy()
                x2.reorder(o)
                kw2 = kw
                if f == "average" and isinstance(kw.get("axis"), int):
                    kw2 = dict(kw, axis=dims[kw["axis"]])
                if f == "calculate_enhancement" and x2.dims[0] != "Power":
                    continue
                try:
                    r2 = st._proc(f, x2, kw2)
                except Exception as e:  # noqa: BLE001
                    out.append("C08:raises-on-permuted-input:%s" % sig)
                    break
                if not dict_close(want, label_dict(r2)):
                    out.append("C08:depends-on-axis-order:%s" % sig)
                    break
        # (b) trace locality
        dim = kw.get("dim")
        g = kw.get("func")
        if (f in self.TRACEWISE and g not in self.NOT_LOCAL and dim in dims and len(dims) >= 2
                and not (f == "normalize" and kw.get("dim") is None)):
            others = [d for d in dims if d != dim]
            idx = {d: (len(pre.coords[d]) - 1) // 2 for d in others}
            args = []
            for d in others:
                args += [d, idx[d]]
            sub = pre[tuple(args)]
            kw3 = kw
            if per_trace:
                j = 0
                for d in others:
                    j = j * len(pre.coords[d]) + idx[d]
                kw3 = dict(kw, p0=kw["p0"][j] if isinstance(kw["p0"], list) else kw["p0"],
                           p1=kw["p1"][j] if isinstance(kw["p1"], list) else kw["p1"])
            try:
                rs = st._proc(f, sub, kw3)
                got = label_dict(rs)
                sel = {d: np.asarray(pre.coords[d]).tolist()[idx[d]] for d in others}
                want_sub = {k: v for k, v in want.items() if all((d, c) in k for d, c in sel.items())}
                if not dict_close(want_sub, got):
                    out.append("C08:not-trace-local:%s" % sig)
            except Exception:  # noqa: BLE001
                out.append("C08:raises-on-single-trace:%s" % sig)
        return out


# ------------------------------------------------------------------------------------ C12
def hand_trapz(y, x, axis):
    y = np.moveaxis(np.asarray(y), axis, 0)
    x = np.asarray(x, dtype=float)
    acc = np.zeros(y.shape[1:], dtype=y.dtype)
    for i in range(len(x) - 1):
        acc = acc + (x[i + 1] - x[i]) * (y[i] + y[i + 1]) / 2.0
    return acc


class IntegralOracle:
    """C12: trapezoid values, region order, linearity, cumulative/definite relation, gain invariance"""

    def pre(self, op, st):
        if op["op"] != "proc" or op["f"] not in ("integrate", "cumulative_integrate", "calculate_enhancement"):
            return None
        return st.objs[op["obj"]].copy() if op["obj"] in st.objs else None

    def post(self, op, st, line, pre):
        if pre is None or line["outcome"] != "ok":
            return []
        f, kw, sig = op["f"], op["kw"], op_sig(op)
        res = st.objs[op["out"]]
        close = lambda a, b: np.asarray(a).shape == np.asarray(b).shape and np.allclose(a, b, rtol=1e-9, atol=1e-12)
        out = []
        if f == "integrate":
            dim = kw["dim"]
            k = list(pre.dims).index(dim)
            regs = kw.get("regions")
            if regs is None:
                want = hand_trapz(pre.values, pre.coords[dim], k)
                if list(res.dims) != [d for d in pre.dims if d != dim] or not close(res.values, want):
                    out.append("C12:integrate-value:" + sig)
            else:
                from implstore import to_float
                if list(res.dims) != [d for d in pre.dims if d != dim] + ["integrals"] or res.shape[-1] != len(regs):
                    return ["C12:region-axis:" + sig]
                for j, (lo, hi) in enumerate(regs):
                    blk = pre[dim, (to_float(lo), to_float(hi))]
                    want = hand_trapz(blk.values, blk.coords[dim], k)
                    if not close(np.asarray(res.values)[..., j], want):
                        out.append("C12:region-value:" + sig)
                        break
            # linearity
            y = pre.copy(); y.values = pre.values ** 2 + 1
            a, b = 2.5, -0.75
            comb = pre.copy(); comb.values = a * pre.values + b * y.values
            try:
                fy = st._proc(f, y, kw); fc = st._proc(f, comb, kw)
                if not close(fc.values, a * np.asarray(res.values) + b * np.asarray(fy.values)):
                    out.append("C12:not-linear:" + sig)
            except Exception:
                out.append("C12:raises-on-combination:" + sig)
            # cumulative / definite relation (whole axis only)
            if regs is None and len(pre.coords[dim]) >= 2:
                cum = dnp.cumulative_integrate(pre, dim)
                last = np.take(np.asarray(cum.values), -1, axis=k)
                if not close(last, res.values):
                    out.append("C12:cumulative-last:" + sig)
        elif f == "cumulative_integrate":
            dim = kw["dim"]; k = list(pre.dims).index(dim)
            x = np.asarray(pre.coords[dim], dtype=float)
            y = np.moveaxis(np.asarray(pre.values), k, 0)
            want = np.zeros_like(y, dtype=np.result_type(y.dtype, float))
            for i in range(1, len(x)):
                want[i] = want[i - 1] + (x[i] - x[i - 1]) * (y[i] + y[i - 1]) / 2.0
            if not close(np.moveaxis(np.asarray(res.values), k, 0), want):
                out.append("C12:cumulative-value:" + sig)
        else:
            idx = kw["idx"]
            full = dnp.calculate_enhancement(pre, off_spectrum_index=idx, return_complex_values=True)
            ref = np.take(np.asarray(full.values), idx, axis=0)
            # "the reference entry is exactly 1": x / x is 1 in IEEE arithmetic for every finite non-zero real x; one rounding
            # is allowed for a complex quotient
            exact = np.all(ref == 1.0) if not np.iscomplexobj(pre.values) else np.allclose(ref, 1.0, rtol=0, atol=4e-16)
            if not exact:
                out.append("C12:reference-not-one:" + sig)
            # the definition: every integral divided by the reference integral (complex division), and the default
            # (return_complex_values=False) is the real part of exactly that
            pv = np.asarray(pre.values)
            want = pv / np.take(pv, [idx], axis=0)
            if not close(full.values, want):
                out.append("C12:enhancement-value:" + sig)
            if not close(np.asarray(res.values), np.real(want)):
                out.append("C12:enhancement-value-default-real:" + sig)
            # "any non-zero real or complex constant": of order one, and weak / strong signals (detector units differ by decades)
            for c in (3.0, -0.5, 2.0 - 1.5j, 3.0e-9, -2.5e-10, 4.0e-12 * np.exp(1.1j), 7.0e9, -1.0e15):
                sc = pre.copy(); sc.values = pre.values * c
                r2 = dnp.calculate_enhancement(sc, off_spectrum_index=idx, return_complex_values=True)
                if not close(r2.values, full.values):
                    out.append("C12:gain-dependent:" + sig)
                    break
        return out


# ------------------------------------------------------------------------------------ C09
def naive_dft(x, N, inverse=False):
    x = np.asarray(x, dtype=complex)
    n = len(x)
    k = np.arange(N).reshape(-1, 1)
    j = np.arange(n).reshape(1, -1)
    if inverse:
        # numpy.ifft(x, n=N): input truncated/zero-padded to N
        xx = np.zeros(N, dtype=complex); xx[: min(n, N)] = x[: min(n, N)]
        jj = np.arange(N).reshape(1, -1)
        return (np.exp(2j * np.pi * k * jj / N) @ xx) / N
    return np.exp(-2j * np.pi * k * j / N) @ x


class FourierOracle:
    """C09: exact DFT along dim only, calibrated axis (tone peaks where the axis says), ppm, inverse, linearity, renaming"""

    def pre(self, op, st):
        if op["op"] != "proc" or op["f"] not in ("fourier_transform", "inverse_fourier_transform"):
            return None
        return st.objs[op["obj"]].copy() if op["obj"] in st.objs else None

    def post(self, op, st, line, pre):
        if pre is None or line["outcome"] != "ok":
            return []
        f, kw = op["f"], op["kw"]
        dim, zff, shift, conv = kw["dim"], max(1, kw["zff"]), bool(kw.get("shift")), bool(kw.get("convert"))
        n = len(pre.coords[dim]); N = zff * n
        par = "odd" if N % 2 else "even"
        sig = "%s:%s:%s" % (op_sig(op), "shift" if shift else "noshift", par)
        res = st.objs[op["out"]]
        k = list(pre.dims).index(dim)
        out = []
        close = lambda a, b: np.asarray(a).shape == np.asarray(b).shape and np.allclose(a, b, rtol=1e-9, atol=1e-9)
        src = np.moveaxis(np.asarray(pre.values), k, 0).reshape(n, -1)
        got = np.moveaxis(np.asarray(res.values), k, 0).reshape(N, -1)
        c = np.asarray(pre.coords[dim], dtype=float)
        if f == "fourier_transform":
            want = np.stack([naive_dft(src[:, j], N) for j in range(src.shape[1])], axis=1)
            if shift:
                want = np.roll(want, N // 2, axis=0)
            if not close(got, want):
                out.append("C09:values-not-dft:" + sig)
            # renaming
            import re
            wantname = ("f" + dim[1:]) if re.fullmatch("t[0-9]*", dim) else dim
            if res.dims[k] != wantname or [d for i, d in enumerate(res.dims) if i != k] != [d for i, d in enumerate(pre.dims) if i != k]:
                out.append("C09:rename:" + sig)
            # axis: N points spaced 1/(N dt); the coordinate of the zero-frequency bin is 0
            dt = c[1] - c[0]
            ax = np.asarray(res.coords[res.dims[k]], dtype=float)
            scale = 1.0
            if conv and "frequency" in pre.dnplab_attrs:
                scale = pre.dnplab_attrs["frequency"] / 1e6
            axhz = ax * scale
            if len(ax) != N or not np.allclose(np.diff(axhz), 1.0 / (N * dt), rtol=1e-9):
                out.append("C09:axis-spacing:" + sig)
            else:
                # the coordinate of every point is the frequency of the complex exponential that peaks there
                tone_bins = sorted(set([0, 1, N // 2, N - 1, (N - 1) // 2]))
                t = np.arange(n) * dt
                for b in tone_bins:
                    fb = axhz[b]
                    y = naive_dft(np.exp(2j * np.pi * fb * t), N)
                    if shift:
                        y = np.roll(y, N // 2)
                    pk = int(np.argmax(np.abs(y)))
                    if pk != b:
                        out.append("C09:axis-not-calibrated:" + sig)
                        break
            # linearity
            y2 = pre.copy(); y2.values = np.asarray(pre.values) * (1 + 2j) + 3
            try:
                r2 = st._proc(f, y2, kw)
                ones = pre.copy(); ones.values = np.ones_like(np.asarray(pre.values), dtype=complex)
                r1 = st._proc(f, ones, kw)
                if not close(r2.values, (1 + 2j) * np.asarray(res.values) + 3 * np.asarray(r1.values)):
                    out.append("C09:not-linear:" + sig)
            except Exception:
                out.append("C09:raises-on-combination:" + sig)
            # inverse with matching options restores values and time axis (zero_fill_factor 1)
            if zff == 1:
                try:
                    r = res.copy()
                    if conv and "frequency" in pre.dnplab_attrs:
                        r.attrs["nmr_frequency"] = pre.dnplab_attrs["frequency"]
                    back = dnp.inverse_fourier_transform(r, res.dims[k], 1, shift, conv and "frequency" in pre.dnplab_attrs)
                    if not close(back.values, np.asarray(pre.values).astype(complex)):
                        out.append("C09:roundtrip-values:" + sig)
                    wname = ("t" + res.dims[k][1:]) if re.fullmatch("f[0-9]*", res.dims[k]) else res.dims[k]
                    bax = np.asarray(back.coords[back.dims[k]], dtype=float)
                    if back.dims[k] != wname or not np.allclose(bax, c - c[0], rtol=1e-9, atol=1e-12):
                        out.append("C09:roundtrip-axis:" + sig)
                except Exception:
                    out.append("C09:roundtrip-raises:" + sig)
        else:
            inp = np.roll(src, -(n // 2), axis=0) if shift else src
            want = np.stack([naive_dft(inp[:, j], N, inverse=True) for j in range(src.shape[1])], axis=1)
            if not close(got, want):
                out.append("C09:values-not-idft:" + sig)
        return out


# ------------------------------------------------------------------------------------ C13
class PhaseOracle:
    """C13: closed-form factor, magnitudes kept, additivity, inverse, 360-periodicity, phase_cycle factor"""

    def pre(self, op, st):
        if op["op"] != "proc" or op["f"] not in ("phase", "phase_cycle"):
            return None
        return st.objs[op["obj"]].copy() if op["obj"] in st.objs else None

    def post(self, op, st, line, pre):
        if pre is None or line["outcome"] != "ok":
            return []
        if getattr(getattr(st, "last_args", None), "modified", lambda: False)():
            # the caller's own angle arrays: used again for the next correction, negated for the inverse one
            return ["C13:angle-array-changed-by-the-call:" + op_sig(op)]
        from implstore import to_float
        f, kw = op["f"], op["kw"]
        res = st.objs[op["out"]]
        dim = kw["dim"]
        k = list(pre.dims).index(dim)
        n = len(pre.coords[dim])
        src = np.moveaxis(np.asarray(pre.values), k, 0).reshape(n, -1)
        got = np.moveaxis(np.asarray(res.values), k, 0).reshape(n, -1)
        close = lambda a, b: np.asarray(a).shape == np.asarray(b).shape and np.allclose(a, b, rtol=1e-9, atol=1e-9)
        out = []
        if f == "phase_cycle":
            rp = np.array(kw["rp"])
            fac = np.exp(-1j * np.pi / 2 * rp[np.arange(n) % len(rp)]).reshape(-1, 1)
            return [] if close(got, src * fac) else ["C13:phase-cycle-factor:" + op_sig(op)]
        m = src.shape[1]
        p0 = np.array([to_float(x) for x in kw["p0"]]) if isinstance(kw["p0"], list) else np.full(m, to_float(kw["p0"]))
        p1 = np.array([to_float(x) for x in kw["p1"]]) if isinstance(kw["p1"], list) else np.full(m, to_float(kw["p1"]))
        sgn = "p0%s:p1%s" % ("-" if (p0 < 0).any() else "+", "-" if (p1 < 0).any() else "+")
        sig = op_sig(op) + ":" + sgn + (":array" if isinstance(kw["p0"], list) or isinstance(kw["p1"], list) else "")
        fac = np.exp(1j * np.deg2rad(p0.reshape(1, -1) + p1.reshape(1, -1) * np.arange(n).reshape(-1, 1) / n))
        if not close(got, src * fac):
            out.append("C13:closed-form:" + sig)
        if not np.allclose(np.abs(got), np.abs(src), rtol=1e-9, atol=1e-12):
            out.append("C13:magnitude:" + sig)
        arr = isinstance(kw["p0"], list) or isinstance(kw["p1"], list)
        P0 = p0 if arr else float(p0[0]); P1 = p1 if arr else float(p1[0])
        try:
            back = dnp.phase(res, dim, -P0, -P1)
            if not close(back.values, np.asarray(pre.values).astype(complex)):
                out.append("C13:inverse:" + sig)
            if not arr:
                a0, a1 = P0 / 3.0, P1 / 3.0
                two = dnp.phase(dnp.phase(pre, dim, a0, a1), dim, P0 - a0, P1 - a1)
                if not close(two.values, res.values):
                    out.append("C13:additivity:" + sig)
                per = dnp.phase(pre, dim, P0 + 360.0 if P0 <= 0 else P0 - 360.0, P1)
                if not close(per.values, res.values):
                    out.append("C13:p0-periodicity:" + sig)
        except Exception:
            out.append("C13:law-raises:" + sig)
        return out


# ------------------------------------------------------------------------------------ C15
DECAYING = ("exponential", "gaussian", "hann", "hamming", "sin2")


class ApodOracle:
    """C15: apodize = data * w(coords[dim]) with one real window for every trace; decaying kinds start
    at 1 and never increase; exponential closed form; unknown kinds rejected"""

    def pre(self, op, st):
        if op["op"] != "proc" or op["f"] != "apodize":
            return None
        return st.objs[op["obj"]].copy() if op["obj"] in st.objs else None

    def post(self, op, st, line, pre):
        if pre is None:
            return []
        from implstore import to_float
        kw = op["kw"]
        kind, dim = kw["kind"], kw["dim"]
        sig = op_sig(op) + ":" + kind
        from dnplab.processing import apodization
        if str(kind).lower() not in apodization._windows:
            return [] if line["outcome"].startswith("raise") else ["C15:unknown-kind-accepted:" + sig]
        if line["outcome"] != "ok":
            return []
        res = st.objs[op["out"]]
        k = list(pre.dims).index(dim)
        n = len(pre.coords[dim])
        src = np.moveaxis(np.asarray(pre.values), k, 0).reshape(n, -1)
        got = np.moveaxis(np.asarray(res.values), k, 0).reshape(n, -1)
        out = []
        if (src == 0).any():
            return []
        if not np.all(np.isfinite(got)):
            return []          # the window overflowed (e.g. lorentz_gauss with a large line width): IEEE inf/nan, outside the model
        ratio = got / src
        w = ratio[:, 0]
        if not np.allclose(ratio, w.reshape(-1, 1), rtol=1e-9, atol=1e-12) or not np.all(np.abs(np.imag(w)) <= 1e-12 + 1e-9 * np.abs(w)):
            out.append("C15:window-depends-on-trace:" + sig)
        w = np.real(w)
        c = np.asarray(pre.coords[dim], dtype=float)
        gauss_ok = kind != "gaussian" or abs(c[0]) < 1e-15
        if kind in DECAYING and gauss_ok and np.all(np.diff(c) > 0):
            lwpos = all(to_float(v) >= 0 for v in kw.get("kwargs", {}).values())
            if lwpos:
                if abs(w[0] - 1.0) > 1e-12:
                    out.append("C15:first-point-not-one:" + sig)
                if np.any(np.diff(w) > 1e-12):
                    out.append("C15:window-increases:" + sig)
        if kind == "exponential":
            lw = to_float(kw["kwargs"]["lw"])
            if not np.allclose(w, np.exp(-np.pi * lw * (c - c[0])), rtol=1e-9, atol=1e-300):
                out.append("C15:exponential-closed-form:" + sig)
        return out


# ------------------------------------------------------------------------------------ C14
class BaselineOracle:
    """C14: remove_background annihilates / is idempotent / linear; normalize max magnitude 1, idempotent,
    positive factor; interp identity on own coords and exact on piecewise-linear data; left_shift removes
    exactly n points; ndalign only rolls, keeps the first trace, maps shifted peaks onto each other"""
    FUNCS = ("trace_local", "normalize", "interp", "left_shift", "ndalign")

    def pre(self, op, st):
        if op["op"] != "proc" or op["f"] not in self.FUNCS or op["obj"] not in st.objs:
            return None
        if op["f"] == "trace_local" and op["kw"].get("func") != "remove_background":
            return None
        return st.objs[op["obj"]].copy()

    def post(self, op, st, line, pre):
        if pre is not None and getattr(getattr(st, "last_args", None), "modified", lambda: False)():
            return ["C14:argument-array-changed-by-the-call:" + op_sig(op)]
        if pre is None or line["outcome"] != "ok":
            return []
        from implstore import to_float
        f, kw = op["f"], op["kw"]
        res = st.objs[op["out"]]
        sig = op_sig(op) + (":" + kw["func"] if f == "trace_local" else "")
        close = lambda a, b, tol=1e-8: np.asarray(a).shape == np.asarray(b).shape and np.allclose(a, b, rtol=tol, atol=tol)
        out = []
        dim = kw.get("dim")
        if f == "trace_local":
            deg = kw["deg"]; regs = kw.get("regions")
            k = list(pre.dims).index(dim)
            c = np.asarray(pre.coords[dim], dtype=float)
            rg = None if regs is None else [(to_float(a), to_float(b)) for a, b in regs]
            rb = lambda x: dnp.remove_background(x, dim, deg, rg)
            # "… the least-squares polynomial of the requested degree fitted ON THE REQUESTED REGIONS": per trace, against
            # numpy.polyfit on exactly the points inside the regions (real and imaginary parts separately)
            mask = np.ones(len(c), dtype=bool) if rg is None else np.zeros(len(c), dtype=bool)
            for lo_, hi_ in (rg or []):
                mask |= (c >= lo_) & (c <= hi_)
            if mask.sum() >= deg + 1:
                src = np.moveaxis(np.asarray(pre.values), k, 0).reshape(len(c), -1)
                got = np.moveaxis(np.asarray(res.values), k, 0).reshape(len(c), -1)
                for j in range(src.shape[1]):
                    t = src[:, j]
                    if np.iscomplexobj(t):
                        want = t - (np.polyval(np.polyfit(c[mask], t.real[mask], deg), c) + 1j * np.polyval(np.polyfit(c[mask], t.imag[mask], deg), c))
                    else:
                        want = t - np.polyval(np.polyfit(c[mask], t[mask], deg), c)
                    sc_ = max(1.0, float(np.max(np.abs(t))))
                    if got.shape != src.shape or not np.allclose(got[:, j], want, rtol=1e-7, atol=1e-7 * sc_):
                        out.append("C14:background-not-the-fit-on-the-regions:%s:deg%d" % (sig, deg)); break
            # annihilates polynomials of degree <= deg
            for dg in range(deg + 1):
                poly = pre.copy()
                shape = [1] * poly.values.ndim; shape[k] = len(c)
                pv = np.polyval(np.arange(1, dg + 2, dtype=float), c).reshape(shape)
                poly.values = np.zeros_like(np.asarray(pre.values), dtype=np.asarray(pre.values).dtype) + pv * (1 + (1j if np.iscomplexobj(pre.values) else 0))
                scale = max(1.0, float(np.max(np.abs(poly.values))))
                if not np.allclose(rb(poly).values, 0, atol=1e-7 * scale):
                    out.append("C14:background-not-annihilated:%s:deg%d" % (sig, deg)); break
            twice = rb(res)
            scale = max(1.0, float(np.max(np.abs(np.asarray(pre.values)))))
            if not np.allclose(twice.values, res.values, atol=1e-7 * scale):
                out.append("C14:background-not-idempotent:" + sig)
            y = pre.copy(); y.values = np.asarray(pre.values) ** 2 - 3
            a, b = 1.5, -2.0
            comb = pre.copy(); comb.values = a * np.asarray(pre.values) + b * np.asarray(y.values)
            if not np.allclose(rb(comb).values, a * np.asarray(res.values) + b * np.asarray(rb(y).values),
                               atol=1e-7 * max(1.0, float(np.max(np.abs(comb.values))))):
                out.append("C14:background-not-linear:" + sig)
        elif f == "normalize":
            v = np.abs(np.asarray(res.values))
            if kw.get("dim") is None:
                if abs(v.max() - 1.0) > 1e-12:
                    out.append("C14:normalize-max:" + sig)
            else:
                k = list(pre.dims).index(kw["dim"])
                if not np.allclose(v.max(axis=k), 1.0, rtol=0, atol=1e-12):
                    out.append("C14:normalize-max-per-trace:" + sig)
            again = dnp.normalize(res, dim=kw.get("dim"))
            if not close(again.values, res.values, 1e-12):
                out.append("C14:normalize-not-idempotent:" + sig)
            with np.errstate(all="ignore"):
                ratio = np.asarray(res.values) / np.asarray(pre.values)
            ratio = ratio[np.isfinite(ratio)]
            if ratio.size and (np.any(np.abs(np.imag(ratio)) > 1e-12) or np.any(np.real(ratio) <= 0)):
                out.append("C14:normalize-factor-not-positive:" + sig)
        elif f == "interp":
            own = dnp.interp(pre, dim, np.asarray(pre.coords[dim], dtype=float).copy())
            if not close(own.values, pre.values, 1e-12) or list(own.dims) != list(pre.dims):
                out.append("C14:interp-own-coords-not-identity:" + sig)
            # exact on piecewise-linear data: the values on a refined grid of a PL function through the nodes
            c = np.asarray(pre.coords[dim], dtype=float)
            k = list(pre.dims).index(dim)
            newc = np.array([to_float(x) for x in kw["new_coord"]])
            inside = (newc >= c.min()) & (newc <= c.max())
            src = np.moveaxis(np.asarray(pre.values), k, 0).reshape(len(c), -1)
            if np.asarray(res.coords[dim]).shape != newc.shape or not np.allclose(np.asarray(res.coords[dim], dtype=float), newc, rtol=1e-12, atol=0):
                out.append("C14:interp-axis-not-the-requested-grid:" + sig)
                return out
            got = np.moveaxis(np.asarray(res.values), k, 0).reshape(len(newc), -1)
            for j in range(src.shape[1]):
                if np.iscomplexobj(src):
                    want = np.interp(newc, c, src[:, j].real) + 1j * np.interp(newc, c, src[:, j].imag)
                else:
                    want = np.interp(newc, c, src[:, j])
                if not np.allclose(got[inside, j], want[inside], rtol=1e-9, atol=1e-9):
                    out.append("C14:interp-not-piecewise-linear:" + sig); break
                # beyond the axis numpy.interp holds the edge value OF THIS TRACE (left / right left at their defaults)
                if not np.allclose(got[~inside, j], want[~inside], rtol=1e-9, atol=1e-9):
                    out.append("C14:interp-edge-value-not-of-this-trace:" + sig); break
        elif f == "left_shift":
            n = kw["n"]; k = list(pre.dims).index(dim)
            want = np.take(np.asarray(pre.values), np.arange(n, pre.shape[k]), axis=k)
            if not close(res.values, want, 0) or not close(res.coords[dim], np.asarray(pre.coords[dim])[n:], 0):
                out.append("C14:left-shift:" + sig)
        elif f == "ndalign":
            k = list(pre.dims).index(dim)
            n = pre.shape[k]
            src = np.moveaxis(np.asarray(pre.values), k, 0).reshape(n, -1)
            got = np.moveaxis(np.asarray(res.values), k, 0).reshape(n, -1)
            if not np.array_equal(got[:, 0], src[:, 0]):
                out.append("C14:ndalign-first-trace-touched:" + sig)
            for j in range(src.shape[1]):
                if not any(np.array_equal(np.roll(src[:, j], s), got[:, j]) for s in range(n)):
                    out.append("C14:ndalign-not-a-roll:" + sig); break
        return out


# ------------------------------------------------------------------ storage dtype must not matter
def dtype_independence(pid, cases, seed, dim_positions=(1,), shape=(3, 8, 2)):
    """The SAME numbers stored in another dtype give the same result.  `cases`: (name, fn(d, dimname) -> DNPData | dict of
    DNPData | ndarray, dimname).  The reference object holds small integer-valued float64 values on an integer-valued float64
    axis; the variants store the values as int64 / int32 / int16 / float32 / complex128 (zero imaginary part) and the
    coordinates of the processed dimension as int64 / int32 / uint16 / float32; three further variants keep the dtype and change the
    MEMORY LAYOUT of the values (Fortran order, a strided view into a larger buffer, reversed strides).  A variant that RAISES is not judged (refusing a
    dtype is not a wrong result); one that returns must agree with the reference by value (dims equal, values and every
    coordinate array close).  Returns (failures, evaluations)."""
    import warnings
    rng = random.Random(seed * 7919 + 4242)
    fails, n_eval = [], 0

    def results(r):
        if isinstance(r, dnp.DNPData):
            return {"": r}
        if isinstance(r, dict):
            return {k: v for k, v in r.items() if isinstance(v, dnp.DNPData)}
        return {"": r}

    def same(a, b, tol):
        if isinstance(a, dnp.DNPData) != isinstance(b, dnp.DNPData):
            return False
        if not isinstance(a, dnp.DNPData):
            a_, b_ = np.asarray(a), np.asarray(b)
            return a_.shape == b_.shape and bool(np.allclose(a_.astype(complex), b_.astype(complex), rtol=tol, atol=tol, equal_nan=True))
        if list(a.dims) != list(b.dims) or np.shape(a.values) != np.shape(b.values):
            return False
        sc = max(1.0, float(np.max(np.abs(np.nan_to_num(np.asarray(b.values, dtype=complex))))) if np.size(b.values) else 1.0)
        if not np.allclose(np.asarray(a.values, dtype=complex), np.asarray(b.values, dtype=complex), rtol=tol, atol=tol * sc, equal_nan=True):
            return False
        for dm in a.dims:
            ca, cb = np.asarray(a.coords[dm], dtype=float), np.asarray(b.coords[dm], dtype=float)
            if ca.shape != cb.shape or not np.allclose(ca, cb, rtol=max(tol, 1e-9), atol=max(tol, 1e-9) * max(1.0, float(np.max(np.abs(cb))) if cb.size else 1.0)):
                return False
        return True

    vkinds = [("int64", np.int64, 1e-9), ("int32", np.int32, 1e-9), ("int16", np.int16, 1e-9), ("float32", np.float32, 2e-5),
              ("complex128", np.complex128, 1e-9)]
    ckinds = [("int64", np.int64, 1e-9), ("int32", np.int32, 1e-9), ("uint16", np.uint16, 1e-9), ("float32", np.float32, 2e-5)]
    for name, fn, dimname in cases:
        for pos in dim_positions:
            shp = list(shape)
            n = shp[pos]
            names = ["Average", "x2", "y3"]; names[pos] = dimname
            vals = np.array([[rng.randint(-9, 9) for _ in range(int(np.prod(shp)))]], dtype=float).reshape(shp)
            vals[tuple(0 if k != pos else slice(None) for k in range(3))] = np.arange(1, n + 1) * 2.0     # one non-trivial trace
            axis = np.arange(n, dtype=float) * 2.0          # integer-valued, non-unit spacing, starts at 0
            coords = [np.arange(s, dtype=float) for s in shp]; coords[pos] = axis

            def build(vd=None, cd=None):
                v = vals.astype(vd) if vd is not None else vals.copy()
                cs = [c.copy() for c in coords]
                if cd is not None:
                    cs[pos] = axis.astype(cd)
                return dnp.DNPData(v, list(names), cs, attrs={"nmr_frequency": 400.0e6}, dnplab_attrs={"frequency": 400.0e6})

            def call(d):
                with warnings.catch_warnings():
                    warnings.simplefilter("ignore")
                    with np.errstate(all="ignore"):
                        return results(fn(d, dimname))
            try:
                ref = call(build())
            except Exception:  # noqa: BLE001
                continue
            def build_layout(kind):
                d = build()
                if kind == "fortran":
                    d.values = np.asfortranarray(vals.copy())
                elif kind == "strided":
                    big = np.zeros(tuple(shp) + (2,), dtype=float); big[..., 0] = vals
                    d.values = big[..., 0]                       # a non-contiguous view into a larger buffer
                elif kind == "transposed-view":
                    d.values = np.ascontiguousarray(vals.T).T     # same numbers, reversed strides
                return d
            lkinds = [("fortran", "fortran", 1e-12), ("strided", "strided", 1e-12), ("transposed-view", "transposed-view", 1e-12)]
            for which, kinds in (("values", vkinds), ("axis", ckinds), ("layout", lkinds)):
                for label, dt, tol in kinds:
                    n_eval += 1
                    try:
                        got = call(build_layout(dt) if which == "layout" else build(vd=dt) if which == "values" else build(cd=dt))
                    except Exception:  # noqa: BLE001  (a dtype the function refuses)
                        continue
                    bad = [k for k in ref if k not in got or not same(got[k], ref[k], tol)]
                    if bad:
                        key = "%s:result-depends-on-storage-dtype:%s:%s-%s" % (pid, name, which, label)
                        fails.append({"key": key, "clause": key,
                                      "ops": [{"function": name, "stored": which, "dtype": label, "dim_pos": pos, "parts": bad}]})
    seen, uniq = set(), []
    for f in fails:
        if f["key"] not in seen:
            seen.add(f["key"]); uniq.append(f)
    return uniq, n_eval


def merge_oracle(res, fails, n_eval, label):
    """add the findings of a model-independent oracle to the result of a property run"""
    seen = {f["key"] for f in res["impl_failures"]}
    for f in fails:
        if f["key"] not in seen:
            seen.add(f["key"]); res["impl_failures"].append(f)
    res["evaluations"] += n_eval
    res.setdefault("distribution", {})[label] = n_eval
    return res


# ------------------------------------------------------------------ the unit of the processed axis must not matter
def axis_scale_independence(pid, cases, seed, scales=(1e-9, 1e-6, 1e-3, 1e3, 1e6), shape=(3, 9, 2), pos=1):
    """The SAME object with its processed axis expressed in another unit (all coordinates of that axis times s, every
    coordinate-valued argument scaled alike by the case itself) gives the same result up to the factors the case declares.
    `cases`: (name, fn(d, dimname, s) -> DNPData, dimname, value_factor(s), coord_factor(s) or None when the dimension is
    consumed).  Axes: non-uniform ascending.  Returns (failures, evaluations)."""
    import warnings
    rng = random.Random(seed * 7919 + 4343)
    fails, n_eval = [], 0
    for name, fn, dimname, vfac, cfac in cases:
        shp = list(shape); n = shp[pos]
        names = ["Average", "x2", "y3"]; names[pos] = dimname
        vals = np.array([rng.randint(-9, 9) + 0.5 * rng.randint(0, 1) for _ in range(int(np.prod(shp)))], dtype=float).reshape(shp)
        vals = vals + 1j * np.roll(vals, 1)
        base = np.cumsum([0.0] + [[1.0, 0.5, 2.0, 1.5][k % 4] for k in range(n - 1)])      # non-uniform, starts at 0

        def call(s):
            cs = [np.arange(m, dtype=float) for m in shp]; cs[pos] = base * s
            d = dnp.DNPData(vals.copy(), list(names), cs)
            with warnings.catch_warnings():
                warnings.simplefilter("ignore")
                with np.errstate(all="ignore"):
                    return fn(d, dimname, s)
        try:
            ref = call(1.0)
        except Exception:  # noqa: BLE001
            continue
        for s in scales:
            n_eval += 1
            try:
                got = call(s)
            except Exception as e:  # noqa: BLE001
                key = "%s:result-depends-on-axis-scale:%s:raises" % (pid, name)
                fails.append({"key": key, "clause": key, "ops": [{"function": name, "scale": s, "error": type(e).__name__}]}); break
            ok = list(got.dims) == list(ref.dims) and np.shape(got.values) == np.shape(ref.values)
            if ok:
                want = np.asarray(ref.values, dtype=complex) * vfac(s)
                sc = max(1e-300, float(np.max(np.abs(want))) if want.size else 1.0)
                ok = bool(np.allclose(np.asarray(got.values, dtype=complex), want, rtol=1e-7, atol=1e-9 * sc))
            if ok:
                for dm in ref.dims:
                    f = cfac(s) if (dm in (dimname, "f" + dimname[1:]) and cfac is not None) else 1.0
                    cw = np.asarray(ref.coords[dm], dtype=float) * f
                    cg = np.asarray(got.coords[dm], dtype=float)
                    if cg.shape != cw.shape or not np.allclose(cg, cw, rtol=1e-9, atol=1e-12 * max(1e-300, float(np.max(np.abs(cw))) if cw.size else 1.0)):
                        ok = False
            if not ok:
                key = "%s:result-depends-on-axis-scale:%s" % (pid, name)
                fails.append({"key": key, "clause": key, "ops": [{"function": name, "scale": s, "axis": (base * s).tolist()}]}); break
    return fails, n_eval


# ------------------------------------------------------------------ what a call returns must not depend on the calls before it
def history_independence(pid, cases, seed, shape=(3, 8, 2), pos=1):
    """Module-level state (caches, defaults updated in place, options remembered between calls) shows as a result that depends on
    what was called before.  For every case ci (and its neighbour cj in the list): r0 = ci(A); then cj(A), cj(B), ci(B), ci(C) with
    other objects of the same and of another length; then ci(A) again must equal r0 — and r0 itself, kept from the first call, must
    still be what it was (a later call must not reach back into an earlier result).  `cases` as for `dtype_independence`."""
    import warnings
    rng = random.Random(seed * 7919 + 4444)
    fails, n_eval = [], 0

    def mk(n, x0, dx, dimname, salt):
        shp = list(shape); shp[pos] = n
        names = ["Average", "x2", "y3"]; names[pos] = dimname
        r2 = random.Random(salt)
        v = np.array([r2.randint(-9, 9) + 0.25 * r2.randint(0, 3) for _ in range(int(np.prod(shp)))], dtype=float).reshape(shp)
        v = v + 1j * np.roll(v, 2)
        cs = [np.arange(m, dtype=float) for m in shp]; cs[pos] = x0 + dx * np.arange(n)
        return dnp.DNPData(v, names, cs, attrs={"nmr_frequency": 400.0e6}, dnplab_attrs={"frequency": 400.0e6})

    def call(fn, d, dimname):
        with warnings.catch_warnings():
            warnings.simplefilter("ignore")
            with np.errstate(all="ignore"):
                r = fn(d, dimname)
        return {"": r} if isinstance(r, dnp.DNPData) else ({k: v for k, v in r.items() if isinstance(v, dnp.DNPData)} if isinstance(r, dict) else {})

    for k, (name, fn, dimname) in enumerate(cases):
        name2, fn2, dim2 = cases[(k + 1) % len(cases)]
        n = shape[pos]
        A = lambda: mk(n, 0.0, 2.0, dimname, 11)
        B = lambda dn=dimname: mk(n, 1.0, 0.5, dn, 12)
        C = lambda: mk(n + 3, 0.0, 2.0, dimname, 13)
        try:
            r0 = call(fn, A(), dimname)
        except Exception:  # noqa: BLE001
            continue
        if not r0:
            continue
        snap0 = {kk: deep_snap(v) for kk, v in r0.items()}
        for f_, d_, dn_ in ((fn2, mk(n, 0.0, 2.0, dim2, 11), dim2), (fn2, B(dim2), dim2), (fn, B(), dimname), (fn, C(), dimname)):
            try:
                call(f_, d_, dn_)
            except Exception:  # noqa: BLE001
                pass
        n_eval += 1
        try:
            r1 = call(fn, A(), dimname)
        except Exception as e:  # noqa: BLE001
            key = "%s:result-depends-on-earlier-calls:%s:raises" % (pid, name)
            fails.append({"key": key, "clause": key, "ops": [{"function": name, "after": name2, "error": type(e).__name__}]}); continue
        for kk, sn in snap0.items():
            ch = snap_diff(sn, deep_snap(r0[kk]))
            if ch:
                key = "%s:earlier-result-changed-by-later-call:%s" % (pid, name)
                fails.append({"key": key, "clause": key, "ops": [{"function": name, "later": name2, "parts": ch}]}); break
            if kk not in r1:
                continue
            s1 = deep_snap(r1[kk])
            bad = [p_ for p_ in ("dims", "coords", "values") if p_ in snap_diff(sn, s1)]
            if bad:
                # identical inputs, identical call: anything but the very same numbers is state carried over
                key = "%s:result-depends-on-earlier-calls:%s" % (pid, name)
                fails.append({"key": key, "clause": key, "ops": [{"function": name, "after": name2, "parts": bad}]}); break
    return fails, n_eval


# ------------------------------------------------------------------ the container / number type of an argument must not matter
def argform_independence(pid, cases, seed, shape=(3, 8, 2), pos=1):
    """`cases`: (name, dimname, [(form label, fn(d, dimname) -> DNPData | dict)…]) — the FIRST form is the reference; every other
    form passes the same argument values in another container or number type (tuple / list / ndarray, Python int / float / NumPy
    scalar, bool / numpy.bool_ / 0-1).  A form that raises is not judged; one that returns must agree with the reference."""
    import warnings
    rng = random.Random(seed * 7919 + 4545)
    fails, n_eval = [], 0
    for name, dimname, forms in cases:
        shp = list(shape); n = shp[pos]
        names = ["Average", "x2", "y3"]; names[pos] = dimname
        vals = np.array([rng.randint(-9, 9) + 0.5 * rng.randint(0, 1) for _ in range(int(np.prod(shp)))], dtype=float).reshape(shp)
        vals = vals + 1j * np.roll(vals, 3)

        def mk():
            cs = [np.arange(m, dtype=float) for m in shp]; cs[pos] = np.arange(n, dtype=float) * 2.0
            return dnp.DNPData(vals.copy(), list(names), cs, attrs={"nmr_frequency": 400.0e6}, dnplab_attrs={"frequency": 400.0e6})

        def call(fn):
            with warnings.catch_warnings():
                warnings.simplefilter("ignore")
                with np.errstate(all="ignore"):
                    r = fn(mk(), dimname)
            return {"": r} if isinstance(r, dnp.DNPData) else ({k: v for k, v in r.items() if isinstance(v, dnp.DNPData)} if isinstance(r, dict) else {})
        try:
            ref = {k: deep_snap(v) for k, v in call(forms[0][1]).items()}
        except Exception:  # noqa: BLE001
            continue
        for label, fn in forms[1:]:
            n_eval += 1
            try:
                got = call(fn)
            except Exception:  # noqa: BLE001
                continue
            def differs(sn, g):
                # by VALUE (an integer grid handed over gives an integer coordinate array: the same numbers)
                if list(sn["dims"]) != list(g.dims) or np.shape(sn["values"]) != np.shape(g.values):
                    return True
                if not np.allclose(np.asarray(g.values, dtype=complex), np.asarray(sn["values"], dtype=complex), rtol=1e-12, atol=1e-12, equal_nan=True):
                    return True
                for c0, dm in zip(sn["coords"], g.dims):
                    c1 = np.asarray(g.coords[dm], dtype=float)
                    if c1.shape != np.shape(c0) or not np.allclose(c1, np.asarray(c0, dtype=float), rtol=1e-12, atol=1e-12):
                        return True
                return False
            bad = [k for k, sn in ref.items() if k not in got or differs(sn, got[k])]
            if bad:
                key = "%s:result-depends-on-argument-form:%s:%s" % (pid, name, label)
                fails.append({"key": key, "clause": key, "ops": [{"function": name, "form": label, "reference_form": forms[0][0]}]})
    return fails, n_eval
