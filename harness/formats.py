"""Format kits for C06 / C19: for each vendor format a way to
  * draw a header configuration (rank, extents, byte order, sample type, version),
  * describe its binary section as a `Layout` for the Lean model,
  * write the text headers the real importer needs (patched from shipped samples or minimal),
  * say how raw stored scalars become imported values (real/imaginary convention, squeeze).
The sample bytes themselves come from the Lean encoder."""
import os, struct, shutil, re, io, contextlib, warnings
import numpy as np
from common import dnp, REPO

DATA = os.path.join(REPO, "data")


def np_dtype(kind, width, big):
    return np.dtype((">" if big else "<") + {"i": "i", "f": "f"}[kind] + str(width))


def rand_scalars(rng, n, kind, width):
    if kind == "i":
        lim = 2 ** (8 * width - 2)
        return np.array([rng.randint(-lim, lim) for _ in range(n)], dtype="i%d" % width)
    vals = [rng.choice([-1, 1]) * rng.randint(0, 4000) / rng.choice([1, 2, 4, 8, 16, 64]) for _ in range(n)]
    return np.array(vals, dtype="f%d" % width)


class Case:
    """one synthetic file: logical scalar array `raw` of shape logical_shape + (2,) when complex"""
    pass


def points_bytes(raw, cplx, dt):
    """per logical point (C-order) the bytes stored in the file"""
    flat = raw.reshape(-1, 2) if cplx else raw.reshape(-1, 1)
    out = []
    for row in flat:
        b = b"".join(np.array(x, dtype=dt).tobytes() for x in row)
        out.append(list(b))
    return out


def layout_json(hdr, rowPrefix, rowPad, pointBytes, rowLen, outer, perm, trailerOk=False):
    d = {"hdr": hdr, "rowPrefix": rowPrefix, "rowPad": rowPad, "pointBytes": pointBytes, "rowLen": rowLen,
         "outer": list(outer), "perm": list(perm)}
    if trailerOk:
        d["trailerOk"] = True
    return d


def logical_shape(L):
    fs = L["outer"] + [L["rowLen"]]
    return [fs[k] for k in L["perm"]]


# =============================================================================== Prospa
class Prospa:
    name = "prospa"
    fmt = "prospa"

    def draw(self, rng):
        rank = rng.randint(1, 4)
        ext = rng.sample([2, 3, 4, 5, 6], rank) + [1] * (4 - rank)
        dtype = rng.choice([500, 501, 502])
        v10 = rng.random() < 0.3 and ext[3] == 1
        return {"ext": ext, "dtype": dtype, "v10": v10, "rank": rank}

    def systematic(self, rng):
        """every rank x sample type x header version once"""
        out = []
        for rank in (1, 2, 3, 4):
            for dtype in (500, 501, 502):
                for v10 in ((False, True) if rank < 4 else (False,)):
                    ext = rng.sample([2, 3, 4, 5, 6], rank) + [1] * (4 - rank)
                    out.append({"ext": ext, "dtype": dtype, "v10": v10, "rank": rank})
        return out

    def layout(self, c):
        x, y, z, q = c["ext"]
        w = 8 if c["dtype"] == 502 else 4
        pb = w * (2 if c["dtype"] == 501 else 1)
        hdr = 12 + (16 if c["v10"] else 20)
        # stored Fortran-order (x fastest): file grid C-order (q, z, y | x); imported (x, y, z, q)
        return layout_json(hdr, 0, 0, pb, x, [q, z, y], [3, 2, 1, 0])

    def sample(self, c):
        return ("f", 8 if c["dtype"] == 502 else 4, False, c["dtype"] == 501)

    def header_bytes(self, c):
        b = b"SORP" + b"ATAD" + (b"0.1V" if c["v10"] else b"1.1V")
        ints = [c["dtype"]] + c["ext"][: 3 if c["v10"] else 4]
        return b + struct.pack("%di" % len(ints), *ints)

    def write(self, c, d, body):
        p = os.path.join(d, "data.%dd" % c["rank"])
        hb = self.header_bytes(c)
        with open(p, "wb") as f:
            f.write(hb + bytes(body[len(hb):]))
        with open(os.path.join(d, "acqu.par"), "w") as f:
            f.write('experiment = "verif"\nnrPnts = %d\ndwellTime = 2\nb1Freq = 14.5d\n' % c["ext"][0])
        return p

    def expect(self, c, raw):
        v = raw[..., 0] - 1j * raw[..., 1] if c["dtype"] == 501 else raw.astype(float)
        v = np.squeeze(v)
        dims = ["t2", "y", "z", "q"][: v.ndim]
        coords = [np.arange(0.0, c["ext"][0] * 2.0, 2.0) / 1e6] + [np.arange(s) for s in v.shape[1:]]
        return v, dims, coords

    def perturbed(self, c, change):
        c2 = dict(c, ext=list(c["ext"])); c2["ext"][change[0]] += change[1]
        if c["v10"] and change[0] == 3:
            return None
        return c2 if min(c2["ext"]) >= 1 else None

    def rebuild_header(self, c, d, path, change):
        """rewrite the binary header with one extent changed (C19 header perturbation)"""
        c2 = self.perturbed(c, change)
        body = open(path, "rb").read()
        hb_old = self.header_bytes(c)
        with open(path, "wb") as f:
            f.write(self.header_bytes(c2) + body[len(hb_old):])
        return c2


# =============================================================================== VnmrJ
class VnmrJ:
    name = "vnmrj"
    fmt = "vnmrj"

    def draw(self, rng):
        nblocks = rng.choice([1, 1, 2, 3, 5])
        npts = 2 * rng.randint(2, 7)
        c = {"nblocks": nblocks, "np": npts, "float": rng.random() < 0.5}
        if nblocks >= 2 and rng.random() < 0.5:
            c["array"] = self.named_array(rng, nblocks)
        return c

    @staticmethod
    def named_array(rng, n):
        """an experiment arrayed over a NAMED real parameter (procpar: array = "d2", d2 = n values in acquisition order)"""
        vals = rng.sample([0.5, 0.1, 2.0, 0.25, 4.0, 1.5, 8.0], n)
        return {"name": rng.choice(["d2", "pw", "tpwr"]), "values": vals}

    def systematic(self, rng):
        out = [{"nblocks": nb, "np": 2 * rng.randint(2, 7), "float": fl} for nb in (1, 2, 3) for fl in (False, True)]
        # every array style once: unnamed (arraystart/stop/delta) above, named over a real parameter here
        for nb in (2, 3, 5):
            out.append({"nblocks": nb, "np": 2 * rng.randint(2, 7), "float": bool(nb % 2), "array": self.named_array(rng, nb)})
        return out

    def layout(self, c):
        return layout_json(32, 28, 0, 8, c["np"] // 2, [c["nblocks"]], [1, 0])

    def sample(self, c):
        return ("f" if c["float"] else "i", 4, True, True)

    def file_header(self, c):
        # nblocks, ntraces, np, ebytes, tbytes, bbytes, vers_id, status, nbheaders — bbytes is redundant (ntraces*tbytes + 28)
        return struct.pack(">llllllhhl", c["nblocks"], 1, c["np"], 4, 4 * c["np"], 4 * c["np"] + 28 + c.get("bbytes_delta", 0),
                           0, 0x08 if c["float"] else 0, 1)

    declared_follows_header = True

    def declared(self, c):
        """bytes of the data section as the header states them: nblocks * bbytes"""
        return c["nblocks"] * (4 * c["np"] + 28 + c.get("bbytes_delta", 0))

    def write(self, c, d, body):
        p = os.path.join(d, "syn.fid")
        os.makedirs(p, exist_ok=True)
        body = bytearray(body)
        body[:32] = self.file_header(c)
        row = 28 + 4 * c["np"]
        for b in range(c["nblocks"]):
            body[32 + b * row: 32 + b * row + 28] = struct.pack(">hhhhlffff", 0, 0, b + 1, 0, 1, 0, 0, 0, 0)
        with open(os.path.join(p, "fid"), "wb") as f:
            f.write(bytes(body))
        def par(name, val, basic=1):
            v = ('1 "%s"' % val) if basic == 2 else ("1 %s" % val)
            return "%s 1 %d 1e9 -1e9 0 2 1 0 1 64\n%s\n0 \n" % (name, basic, v)
        arr = c.get("array")
        with open(os.path.join(p, "procpar"), "w") as f:
            f.write(par("H1reffrq", 400.0) + par("sw", 4000.0) + par("np", c["np"]) + par("arraydim", c["nblocks"]) +
                    par("array", arr["name"] if arr else "", 2) + par("arraystart", 0) + par("arraystop", c["nblocks"] - 1) + par("arraydelta", 1) + par("nt", 4) +
                    par("d1", 1.5) + par("temp", 25.0))
            if arr:
                # a multi-valued real parameter: "<count> v1 v2 …" on the value line
                f.write("%s 1 1 1e9 -1e9 0 2 1 0 1 64\n%d %s\n0 \n" % (arr["name"], len(arr["values"]), " ".join(repr(v) for v in arr["values"])))
        return p

    def expect(self, c, raw):
        v = raw[..., 0].astype(float) - 1j * raw[..., 1].astype(float)       # (np/2, nblocks)
        t = np.arange(c["np"] // 2) / 4000.0
        if c["nblocks"] == 1:
            return v.reshape(-1), ["t2"], [t]
        if c.get("array"):
            return v, ["t2", c["array"]["name"]], [t, np.array(c["array"]["values"], dtype=float)]
        return v, ["t2", "t1"], [t, np.arange(0, c["nblocks"], 1.0)]

    def perturbed(self, c, change):
        if change[0] == 2:
            # the redundant bytes-per-block field alone, one sample more / less (only observable with several blocks)
            return dict(c, bbytes_delta=4 * change[1]) if c["nblocks"] >= 2 else None
        if change[0] > 1:
            return None
        c2 = dict(c)
        key = ["np", "nblocks"][change[0]]
        c2[key] = c[key] + (2 * change[1] if key == "np" else change[1])
        return c2 if c2[key] >= 1 else None

    def rebuild_header(self, c, d, path, change):
        c2 = self.perturbed(c, change)
        fp = os.path.join(path, "fid")
        body = bytearray(open(fp, "rb").read())
        body[:32] = self.file_header(c2)
        with open(fp, "wb") as f:
            f.write(bytes(body))
        return c2

    def data_file(self, path):
        return os.path.join(path, "fid")


# =============================================================================== TopSpin
class TopSpin:
    name = "topspin"
    fmt = "topspin"

    def draw(self, rng):
        rank = rng.choice([1, 2, 2, 3])
        td = 2 * rng.randint(3, 40)
        return {"rank": rank, "td": td, "td1": rng.randint(2, 4), "td3": rng.randint(2, 3), "big": rng.random() < 0.5,
                "dtypa": rng.choice([0, 2]), "ver4": rng.random() < 0.3}

    def systematic(self, rng):
        """every rank x word size x sample kind once (the word size is stated by the header's version alone)"""
        out = []
        for rank in (1, 2, 3):
            for ver4 in (False, True):
                for dtypa in (0, 2):
                    c = self.draw(rng)
                    c.update({"rank": rank, "ver4": ver4, "dtypa": dtypa})
                    out.append(c)
        return out

    def width(self, c):
        return 8 if c["ver4"] else 4

    def layout(self, c):
        w = self.width(c)
        pts = c["td"] // 2
        if c["rank"] == 1:
            return layout_json(0, 0, 0, 2 * w, pts, [], [0])
        # rows of a ser file are padded to a multiple of 256 POINTS... of 1024 bytes
        row_scalars = c["td"]
        block = 1024 // w
        padded = -(-row_scalars // block) * block
        pad = (padded - row_scalars) * w
        outer = [c["td1"]] if c["rank"] == 2 else [c["td3"], c["td1"]]
        # the importer finally reorders t2 to the front
        return layout_json(0, 0, pad, 2 * w, pts, outer, [len(outer)] + list(range(len(outer))))

    def sample(self, c):
        return ("i" if c["dtypa"] == 0 else "f", self.width(c), c["big"], True)

    def patch(self, txt, kv):
        for k, v in kv.items():
            txt, n = re.subn(r"##\$%s= .*" % re.escape(k), "##$%s= %s" % (k, v), txt)
            assert n == 1, k
        return txt

    def write(self, c, d, body):
        src = os.path.join(DATA, "topspin", "1")
        p = os.path.join(d, "exp")
        os.makedirs(p, exist_ok=True)
        acqus = open(os.path.join(src, "acqus")).read()
        acqus = self.patch(acqus, {"TD": c["td"], "BYTORDA": 1 if c["big"] else 0, "DTYPA": c["dtypa"]})
        if c["ver4"]:
            acqus, n = re.subn(r"Version \d+\.\d+", "Version 4.1", acqus, count=1)
            assert n == 1
        open(os.path.join(p, "acqus"), "w").write(acqus)
        if c["rank"] >= 2:
            open(os.path.join(p, "acqu2s"), "w").write(self.patch(open(os.path.join(src, "acqus")).read(), {"TD": c["td1"]}))
        if c["rank"] == 3:
            open(os.path.join(p, "acqu3s"), "w").write(self.patch(open(os.path.join(src, "acqus")).read(), {"TD": c["td3"]}))
        with open(os.path.join(p, "fid" if c["rank"] == 1 else "ser"), "wb") as f:
            f.write(bytes(body))
        return p

    def expect(self, c, raw):
        v = raw[..., 0].astype(float) + 1j * raw[..., 1].astype(float)
        dims = {1: ["t2"], 2: ["t2", "t1"], 3: ["t2", "t3", "t1"]}[c["rank"]]
        return v, dims, None

    def data_file(self, path):
        return os.path.join(path, "fid" if os.path.exists(os.path.join(path, "fid")) else "ser")

    def perturbed(self, c, change):
        c2 = dict(c)
        if change[0] == 1 and c["rank"] >= 2:
            c2["td1"] = c["td1"] + change[1]
        elif change[0] == 0:
            c2["td"] = c["td"] + 2 * change[1]
        else:
            return None
        return c2 if c2["td"] >= 2 and c2["td1"] >= 1 else None

    def rebuild_header(self, c, d, path, change):
        c2 = self.perturbed(c, change)
        f = os.path.join(path, "acqu2s" if change[0] == 1 else "acqus")
        txt = open(f).read()
        txt = self.patch(txt, {"TD": c2["td1"] if change[0] == 1 else c2["td"]})
        open(f, "w").write(txt)
        return c2


# =============================================================================== TNMR
class TNMR:
    name = "tnmr"
    fmt = "tnmr"

    def draw(self, rng):
        rank = rng.randint(1, 4)
        ext = rng.sample([2, 3, 4, 5, 6], rank) + [1] * (4 - rank)
        return {"ext": ext, "trailer": rng.choice([0, 0, 7, 64]), "dwell": self.draw_dwell(rng)}

    # dwell times as spectrometers have them: decimal fractions of a second (not binary fractions), from 100 ns to seconds
    DWELLS = [1e-7, 2e-7, 3e-6, 1e-5, 2.5e-5, 1e-3, 0.1, 0.3, 0.5, 2.0]

    def draw_dwell(self, rng):
        return [rng.choice(self.DWELLS) if rng.random() < 0.7 else round(10 ** rng.uniform(-7, 0), 9) for _ in range(4)]

    def systematic(self, rng):
        out = [{"ext": rng.sample([2, 3, 4, 5, 6], rank) + [1] * (4 - rank), "trailer": tr} for rank in (1, 2, 3, 4) for tr in (0, 7)]
        # every extent with every listed dwell time on the direct axis (and a rotation of the list on the others)
        for e in (2, 3, 4, 5, 6, 7):
            for k, dw in enumerate(self.DWELLS):
                rot = self.DWELLS[k:] + self.DWELLS[:k]
                out.append({"ext": [e, rng.choice([1, 2, 3]), 1, 1], "trailer": 0, "dwell": [dw, rot[1], rot[2], rot[3]]})
        return out

    def layout(self, c):
        x, y, z, q = c["ext"]
        return layout_json(20 + 1024 + 8 + 4, 0, 0, 8, x, [q, z, y], [3, 2, 1, 0], trailerOk=True)

    def sample(self, c):
        return ("f", 4, False, True)

    def write(self, c, d, body):
        src = open(os.path.join(DATA, "tnmr", "1D.tnt"), "rb").read()
        hdr = bytearray(src[: 20 + 1024 + 8 + 4])
        st = 20
        hdr[st: st + 16] = struct.pack("<4i", *c["ext"])
        hdr[st + 272: st + 304] = struct.pack("<4d", *c.get("dwell", [0.5, 2.0, 0.25, 4.0]))
        n = 1
        for e in c["ext"]:
            n *= e
        hdr[20 + 1024 + 8: 20 + 1024 + 12] = struct.pack("<i", 8 * n)
        p = os.path.join(d, "syn.tnt")
        with open(p, "wb") as f:
            f.write(bytes(hdr) + bytes(body[len(hdr):]) + bytes([0xAB]) * c["trailer"])
        return p

    def expect(self, c, raw):
        v = raw[..., 0].astype(float) + 1j * raw[..., 1].astype(float)
        dw = c.get("dwell", [0.5, 2.0, 0.25, 4.0])
        keep = [k for k in range(4) if c["ext"][k] != 1]
        names = ["t2", "t1", "t3", "t4"]
        return np.squeeze(v), [names[k] for k in keep], [np.arange(c["ext"][k]) * dw[k] for k in keep]

    def declared(self, c):
        """byte length of the DATA section as the file states it (the int32 after the DATA tag)"""
        n = 1
        for e in c["ext"]:
            n *= e
        return 8 * n

    def perturbed(self, c, change):
        c2 = dict(c, ext=list(c["ext"])); c2["ext"][change[0]] += change[1]
        return c2 if min(c2["ext"]) >= 1 else None

    def rebuild_header(self, c, d, path, change):
        c2 = self.perturbed(c, change)
        b = bytearray(open(path, "rb").read())
        b[20:36] = struct.pack("<4i", *c2["ext"])
        open(path, "wb").write(bytes(b))
        return c2

    def redundant_patches(self, c):
        """header fields that restate or qualify the sizes without entering the layout (points really acquired, first point,
        acquisition points): (label, offset in the file, bytes).  Whatever they say, the samples of the DATA section belong where
        `npts` puts them — an importer may refuse the file, never re-cut it silently."""
        ext = list(c["ext"])
        out = [("actual_npts-equal", 20 + 16, struct.pack("<4i", *ext))]
        for k in range(4):
            if ext[k] > 1:
                a = list(ext); a[k] = max(1, ext[k] // 2)
                out.append(("actual_npts[%d]-half" % k, 20 + 16, struct.pack("<4i", *a)))
                a = list(ext); a[k] = ext[k] - 1
                out.append(("actual_npts[%d]-minus1" % k, 20 + 16, struct.pack("<4i", *a)))
        out.append(("acq_points-half", 20 + 32, struct.pack("<i", max(1, ext[0] // 2))))
        out.append(("npts_start-one", 20 + 36, struct.pack("<4i", 1, 0, 0, 0)))
        return out


# =============================================================================== RS2D
class RS2D:
    name = "rs2d"
    fmt = "rs2d"

    def draw(self, rng):
        rank = rng.randint(1, 4)
        ext = rng.sample([2, 3, 4, 5, 6], rank) + [1] * (4 - rank)      # 1D .. 4D
        return {"ext": ext, "rc": rng.choice([1, 1, 2]), "dwell": rng.choice(self.DWELLS)}

    # the dwell time in the spellings an xs:double may take (with / without decimal point, exponent in either case, an integer)
    DWELLS = ["0.5", "5E-1", "5e-01", "2.5e-1", "25E-2", "2", "2.0", "5E-6", "1e-05", "0.000005"]

    def systematic(self, rng):
        return [{"ext": rng.sample([2, 3, 4, 5, 6], rank) + [1] * (4 - rank), "rc": rc} for rank in (1, 2, 3, 4) for rc in (1, 2)] + \
               [{"ext": rng.sample([2, 3, 4, 5, 6], 2) + [1, 1], "rc": 1, "dwell": dw} for dw in self.DWELLS]

    def layout(self, c):
        d1, d2, d3, d4 = c["ext"]
        # file grid C-order (receiver, 4D, 3D, 2D | 1D); the importer reverses all axes: logical (1D, 2D, 3D, 4D, receiver)
        return layout_json(0, 0, 0, 8, d1, [c["rc"], d4, d3, d2], [4, 3, 2, 1, 0])

    def sample(self, c):
        return ("f", 4, True, True)

    def _xml(self, c):
        def ent(k, v):
            return ("<entry><key>%s</key><value><name>%s</name><value>%s</value></value></entry>" % (k, k, v))
        return "<header><params>" + "".join(ent("ACQUISITION_MATRIX_DIMENSION_%dD" % (k + 1), c["ext"][k]) for k in range(4)) + \
               ent("RECEIVER_COUNT", c["rc"]) + ent("DWELL_TIME", c.get("dwell", "0.5")) + ent("BASE_FREQ_1", "400000000.0") + "</params></header>"

    def write(self, c, d, body):
        p = os.path.join(d, "rs2d")
        os.makedirs(p, exist_ok=True)
        with open(os.path.join(p, "data.dat"), "wb") as f:
            f.write(bytes(body))
        with open(os.path.join(p, "header.xml"), "w") as f:
            f.write(self._xml(c))
        return os.path.join(p, "data.dat")

    def expect(self, c, raw):
        # (re - i im) * i = im + i re
        v = raw[..., 1].astype(float) + 1j * raw[..., 0].astype(float)
        ext = list(c["ext"]) + [c["rc"]]
        keep = [k for k in range(5) if ext[k] != 1]
        scale = [float(c.get("dwell", "0.5")), 1.0, 1.0, 1.0, 1.0]
        return np.squeeze(v), ["t%d" % k for k in keep], [np.arange(ext[k]) * scale[k] for k in keep]

    def perturbed(self, c, change):
        c2 = dict(c, ext=list(c["ext"])); c2["ext"][change[0]] += change[1]
        return c2 if min(c2["ext"]) >= 1 else None

    def rebuild_header(self, c, d, path, change):
        c2 = self.perturbed(c, change)
        with open(os.path.join(os.path.dirname(path), "header.xml"), "w") as f:
            f.write(self._xml(c2))
        return c2


# =============================================================================== BES3T (Bruker Xepr / Xenon)
class BES3T:
    name = "bes3t"
    fmt = "xepr"
    FMT = {"D": ("f", 8), "F": ("f", 4), "I": ("i", 4), "S": ("i", 2)}

    def draw(self, rng):
        rank = rng.randint(1, 3)
        ext = rng.sample([2, 3, 4, 5, 6], rank) + [1] * (3 - rank)
        return {"ext": ext, "rank": rank, "cplx": rng.random() < 0.5, "big": rng.random() < 0.6,
                "fmt": rng.choice(["D", "D", "D", "F", "I"])}

    def systematic(self, rng):
        return [{"ext": rng.sample([2, 3, 4, 5, 6], rank) + [1] * (3 - rank), "rank": rank, "cplx": cplx, "big": big, "fmt": fmt}
                for rank in (1, 2, 3) for cplx in (False, True) for big in (False, True) for fmt in ("D", "F", "I")]

    def layout(self, c):
        x, y, z = c["ext"]
        w = self.FMT[c["fmt"]][1]
        pb = w * (2 if c["cplx"] else 1)
        # Fortran order (x fastest): file grid C-order (z, y | x); imported (x, y, z)
        if c["rank"] == 1:
            return layout_json(0, 0, 0, pb, x, [], [0])
        if c["rank"] == 2:
            return layout_json(0, 0, 0, pb, x, [y], [1, 0])
        return layout_json(0, 0, 0, pb, x, [z, y], [2, 1, 0])

    def sample(self, c):
        kind, w = self.FMT[c["fmt"]]
        return (kind, w, c["big"], c["cplx"])

    def _dsc(self, c):
        src = open(os.path.join(DATA, "bes3t", "1D_CW.DSC")).read().splitlines()
        x, y, z = c["ext"]
        rep = {"BSEQ": "BSEQ\t%s" % ("BIG" if c["big"] else "LIT"), "IKKF": "IKKF\t%s" % ("CPLX" if c["cplx"] else "REAL"),
               "XTYP": "XTYP\tIDX", "YTYP": "YTYP\t%s" % ("IDX" if c["rank"] >= 2 else "NODATA"),
               "ZTYP": "ZTYP\t%s" % ("IDX" if c["rank"] >= 3 else "NODATA"),
               "IRFMT": "IRFMT\t%s" % c["fmt"], "XPTS": "XPTS\t%d" % x, "XMIN": "XMIN\t3400.0", "XWID": "XWID\t100.0"}
        out = []
        for ln in src:
            key = ln.split("\t")[0].split(" ")[0]
            if key in rep:
                out.append(rep[key])
                if key == "IRFMT" and c["cplx"]:
                    out.append("IIFMT\t%s" % c["fmt"])
                if key == "XWID":
                    if c["rank"] >= 2:
                        out += ["YPTS\t%d" % y, "YMIN\t1.0", "YWID\t%d.0" % (y - 1)]
                    if c["rank"] >= 3:
                        out += ["ZPTS\t%d" % z, "ZMIN\t10.0", "ZWID\t%d.0" % (2 * (z - 1))]
            else:
                out.append(ln)
        return "\n".join(out) + "\n"

    def write(self, c, d, body):
        with open(os.path.join(d, "syn.DTA"), "wb") as f:
            f.write(bytes(body))
        with open(os.path.join(d, "syn.DSC"), "w") as f:
            f.write(self._dsc(c))
        return os.path.join(d, "syn.DSC")

    def data_file(self, path):
        return path[:-4] + ".DTA"

    def expect(self, c, raw):
        v = (raw[..., 0].astype(float) + 1j * raw[..., 1].astype(float)) if c["cplx"] else raw.astype(float)
        x, y, z = c["ext"]
        v = v.reshape([x, y, z][: c["rank"]])
        coords = [np.linspace(3400.0, 3500.0, x) / 10]
        if c["rank"] >= 2:
            coords.append(np.linspace(1.0, 1.0 + (y - 1), y))
        if c["rank"] >= 3:
            coords.append(np.linspace(10.0, 10.0 + 2 * (z - 1), z))
        return v, ["B0", "t1", "t0"][: c["rank"]], coords

    def perturbed(self, c, change):
        if change[0] >= c["rank"] or change[0] > 2:
            return None
        c2 = dict(c, ext=list(c["ext"])); c2["ext"][change[0]] += change[1]
        return c2 if min(c2["ext"][: c["rank"]]) >= 2 else None

    def rebuild_header(self, c, d, path, change):
        c2 = self.perturbed(c, change)
        with open(path, "w") as f:
            f.write(self._dsc(c2))
        return c2


# =============================================================================== WinEPR / EMX (par + spc, "DOS Format")
class WinEPR:
    name = "winepr"
    fmt = "winepr"

    def draw(self, rng):
        rank = rng.randint(1, 2)
        ext = rng.sample([2, 3, 4, 5, 6, 7], rank) + [1] * (2 - rank)
        return {"ext": ext, "rank": rank, "dos": rng.random() < 0.7, "axis": rng.choice(["hcf", "gst", "gst+hcf", "gst+hsw"]),
                "ymin": rng.choice([15.0, 0.0, -3.0]), "gst": rng.choice([3400.0, 0.0])}

    def systematic(self, rng):
        """rank x {DOS little-endian float32, big-endian int32} x {field axis from HCF/HSW; from GST/GSI with neither, only the
        centre field, or only the sweep width given (an incomplete centre description falls back on the sweep description)}"""
        return [{"ext": rng.sample([2, 3, 4, 5, 6, 7], rank) + [1] * (2 - rank), "rank": rank, "dos": dos, "axis": ax}
                for rank in (1, 2) for dos in (True, False) for ax in (("hcf", "gst", "gst+hcf", "gst+hsw") if rank == 1 else ("hcf",))] + \
               [{"ext": rng.sample([2, 3, 4, 5, 6, 7], 2), "rank": 2, "dos": True, "axis": "hcf", "ymin": ym} for ym in (0.0, -3.0)] + \
               [{"ext": rng.sample([3, 4, 5, 6, 7], 1) + [1], "rank": 1, "dos": True, "axis": "gst", "gst": 0.0}]   # axes that START AT ZERO

    def layout(self, c):
        x, y = c["ext"]
        if c["rank"] == 1:
            return layout_json(0, 0, 0, 4, x, [], [0])
        return layout_json(0, 0, 0, 4, x, [y], [1, 0])      # Fortran order: x fastest

    def sample(self, c):
        return ("f", 4, False, False) if c.get("dos", True) else ("i", 4, True, False)

    def _par(self, c):
        x, y = c["ext"]
        lines = (["DOS  Format"] if c.get("dos", True) else []) + ["ANZ %d" % (x * y), "MIN -1.0", "MAX 1.0", "JSS 0"]
        if c["rank"] == 2:
            lines += ["SSX %d" % x, "SSY %d" % y, "XXLB 3400.000000", "XXWI 200.000000", "XYLB %f" % c.get("ymin", 15.0), "XYWI %d.000000" % (y - 1),
                      "XXUN G", "XYUN dB"]
        else:
            lines += ["GST %f" % c.get("gst", 3400.0), "GSI 200.000000", "JUN G", "RES %d" % x]
        lines += ["JSD 4"] + ({"hcf": ["HCF 3500.000000", "HSW 200.000000"], "gst": [], "gst+hcf": ["HCF 3333.000000"], "gst+hsw": ["HSW 77.000000"]}[
                      c.get("axis", "hcf") if c["rank"] == 1 else "hcf"]) + ["RCT 40.96", "RTC 10.24", "RRG 5.6e+003", "RMA 3.0", "MF  9.43",
                  "MP  2.0e-001", "MPD 30.0", "TE  294.2"]
        return "\r\n".join(lines) + "\r\n"

    def write(self, c, d, body):
        with open(os.path.join(d, "syn.spc"), "wb") as f:
            f.write(bytes(body))
        with open(os.path.join(d, "syn.par"), "w", newline="") as f:
            f.write(self._par(c))
        return os.path.join(d, "syn.par")

    def data_file(self, path):
        return path[:-4] + ".spc"

    def expect(self, c, raw):
        x, y = c["ext"]
        v = raw.astype(float).reshape([x, y][: c["rank"]])
        g0 = c.get("gst", 3400.0) if (c["rank"] == 1 and c.get("axis", "hcf") != "hcf") else 3400.0
        coords = [np.linspace(g0, g0 + 200.0, x) / 10]
        if c["rank"] == 2:
            coords.append(np.linspace(c.get("ymin", 15.0), c.get("ymin", 15.0) + (y - 1), y))
        return v, ["B0", "t1"][: c["rank"]], coords

    def perturbed(self, c, change):
        if change[0] >= c["rank"]:
            return None
        c2 = dict(c, ext=list(c["ext"])); c2["ext"][change[0]] += change[1]
        return c2 if min(c2["ext"][: c["rank"]]) >= 2 else None

    def rebuild_header(self, c, d, path, change):
        c2 = self.perturbed(c, change)
        with open(path, "w", newline="") as f:
            f.write(self._par(c2))
        return c2


# =============================================================================== SpecMan4EPR (.exp + .d01)
class SpecMan:
    name = "specman"
    fmt = "specman"

    def draw(self, rng):
        rank = rng.randint(1, 4)
        ext = rng.sample([2, 3, 4, 5, 6], rank) + [1] * (4 - rank)
        return {"ext": ext, "rank": rank, "nv": rng.choice([1, 2, 2, 3]), "subdir": rng.choice(["run", "experiments"])}

    def systematic(self, rng):
        return [{"ext": rng.sample([2, 3, 4, 5, 6], rank) + [1] * (4 - rank), "rank": rank, "nv": nv,
                 "subdir": ["run", "experiments"][(rank + nv) % 2]} for rank in (1, 2, 3, 4) for nv in (1, 2, 3)]

    def layout(self, c):
        s1, s2, s3, s4 = c["ext"]
        nv = c["nv"]
        hdr = 4 * (2 + 6 * nv)
        # the stream is read C-order as (variable, …, s1) and then first and last axis are swapped
        if c["rank"] == 1:
            return layout_json(hdr, 0, 0, 4, s1, [nv], [1, 0])
        if c["rank"] == 2:
            return layout_json(hdr, 0, 0, 4, s1, [nv, s2], [2, 1, 0])
        if c["rank"] == 3:
            return layout_json(hdr, 0, 0, 4, s1, [nv, s3, s2], [3, 1, 2, 0])
        return layout_json(hdr, 0, 0, 4, s1, [nv, s2, s3, s4], [4, 1, 2, 3, 0])

    def sample(self, c):
        return ("f", 4, False, False)

    def header_bytes(self, c):
        total = 1
        for e in c["ext"]:
            total *= e
        words = [c["nv"], 1]
        for _ in range(c["nv"]):
            words += [c["rank"]] + list(c["ext"]) + [total]
        return struct.pack("<%dI" % len(words), *words)

    def write(self, c, d, body):
        sub = os.path.join(d, c["subdir"])
        os.makedirs(sub, exist_ok=True)
        hb = self.header_bytes(c)
        with open(os.path.join(sub, "syn.d01"), "wb") as f:
            f.write(hb + bytes(body[len(hb):]))
        shutil.copy(os.path.join(DATA, "specman", "Nitroxide_Q_Band.exp"), os.path.join(sub, "syn.exp"))
        return os.path.join(sub, "syn.exp")

    def data_file(self, path):
        return path[:-4] + ".d01"

    def expect(self, c, raw):
        v = raw.astype(float)
        return v, ["x0", "x1", "x2", "x3", "x4"][: c["rank"] + 1], [np.arange(0.0, n) for n in v.shape]

    def perturbed(self, c, change):
        if change[0] >= c["rank"]:
            return None
        c2 = dict(c, ext=list(c["ext"])); c2["ext"][change[0]] += change[1]
        return c2 if min(c2["ext"][: c["rank"]]) >= 2 else None

    def rebuild_header(self, c, d, path, change):
        c2 = self.perturbed(c, change)
        df = self.data_file(path)
        body = open(df, "rb").read()
        hb_old = self.header_bytes(c)
        # the per-variable totals stay (they are not read): only the extents change
        words = [c2["nv"], 1]
        total = 1
        for e in c["ext"]:
            total *= e
        for _ in range(c2["nv"]):
            words += [c2["rank"]] + list(c2["ext"]) + [total]
        with open(df, "wb") as f:
            f.write(struct.pack("<%dI" % len(words), *words) + body[len(hb_old):])
        return c2


# =============================================================================== JEOL Delta (.jdf)
class Delta:
    name = "delta"
    fmt = "delta"
    DATA_START = 16384

    def draw(self, rng):
        rank = rng.randint(1, 2)
        if rank == 1:
            n = rng.choice([8, 16, 24])
            cplx = rng.random() < 0.7
            lo = rng.choice([0, 0, 2]); hi = n - 1 - rng.choice([0, 0, 3])
            return {"rank": 1, "pts": [n, 1], "cplx": cplx, "lo": [lo, 0], "hi": [hi, 0], "endian": rng.choice([0, 1])}
        x, y = 4 * rng.randint(1, 3), 4 * rng.randint(1, 3)
        while x == y:
            y = 4 * rng.randint(1, 3)
        lo = [rng.choice([0, 1]), 0]; hi = [x - 1 - rng.choice([0, 2]), y - 1 - rng.choice([0, 1])]
        return {"rank": 2, "pts": [x, y], "cplx": True, "lo": lo, "hi": hi, "endian": rng.choice([0, 1])}

    def systematic(self, rng):
        """1-D real / complex and 2-D, each with the valid window starting at the first stored point and after it,
        ending at the last stored point and before it"""
        out = []
        for cplx in (False, True):
            for lo in (0, 3):
                for cut in (0, 2):
                    n = rng.choice([8, 16, 24])
                    out.append({"rank": 1, "pts": [n, 1], "cplx": cplx, "lo": [lo, 0], "hi": [n - 1 - cut, 0],
                                "endian": rng.choice([0, 1])})
        for lo in ([0, 0], [1, 0], [0, 2], [2, 1]):
            x, y = 8, 12
            out.append({"rank": 2, "pts": [x, y], "cplx": True, "lo": lo, "hi": [x - 1 - rng.choice([0, 2]), y - 1 - rng.choice([0, 1])],
                        "endian": rng.choice([0, 1])})
        return out

    def layout(self, c):
        if c["rank"] == 1:
            n = c["pts"][0]
            if c["cplx"]:      # a section of real parts, then a section of imaginary parts
                return layout_json(self.DATA_START, 0, 0, 8, n, [2], [1, 0], trailerOk=True)
            return layout_json(self.DATA_START, 0, 0, 8, n, [], [0], trailerOk=True)
        x, y = c["pts"]
        e = 4                  # Small_Two_D: 4 x 4 submatrices; two sections (real, imaginary)
        # file grid C-order (section, tile_y, tile_x, r | s); imported [tile_x*e + s, tile_y*e + r]
        return layout_json(self.DATA_START, 0, 0, 8, e, [2, y // e, x // e, e], [2, 4, 1, 3, 0], trailerOk=True)

    def sample(self, c):
        return ("f", 8, not c["endian"], False)

    def declared(self, c):
        return 8 * c["pts"][0] * c["pts"][1] * (2 if c["cplx"] else 1)

    def header_bytes(self, c, declared=None):
        src = bytearray(open(os.path.join(DATA, "delta", "50percCHCL3.jdf"), "rb").read()[: self.DATA_START])
        dl = self.declared(c) if declared is None else declared
        src[8] = c["endian"]; src[12] = c["rank"]; src[14] = 1 if c["rank"] == 1 else 12
        at = [3 if c["cplx"] else 1, 1 if c["rank"] == 2 else 0] + [0] * 6
        src[24:32] = bytes(at)
        src[176:208] = struct.pack(">8I", *(c["pts"] + [1] * 6))
        src[208:240] = struct.pack(">8I", *(c["lo"] + [0] * 6))
        src[240:272] = struct.pack(">8I", *(c["hi"] + [0] * 6))
        src[272:336] = struct.pack(">8d", 0.0, 1.0, 0, 0, 0, 0, 0, 0)
        src[336:400] = struct.pack(">8d", 2.0, 5.0, 0, 0, 0, 0, 0, 0)
        src[1284:1288] = struct.pack(">I", self.DATA_START)
        src[1288:1296] = struct.pack(">Q", dl)
        src[1296:1304] = struct.pack(">Q", self.DATA_START + dl)
        src[1304:1308] = struct.pack(">I", 0)
        src[1308:1316] = struct.pack(">Q", self.DATA_START + dl)
        src[1316:1320] = struct.pack(">I", 0)
        src[1320:1328] = struct.pack(">Q", self.DATA_START + dl)
        return bytes(src)

    def write(self, c, d, body):
        p = os.path.join(d, "syn.jdf")
        hb = self.header_bytes(c)
        with open(p, "wb") as f:
            f.write(hb + bytes(body[len(hb):]))
        return p

    def expect(self, c, raw):
        if c["rank"] == 1:
            v = (raw[:, 0].astype(float) - 1j * raw[:, 1].astype(float)) if c["cplx"] else raw.astype(float)
            v = v[c["lo"][0]: c["hi"][0] + 1]
            return v, ["t2"], [np.linspace(0.0, 2.0, len(v))]
        x, y = c["pts"]
        r = raw.astype(float).reshape(x, y, 2)
        v = r[..., 0] - 1j * r[..., 1]
        v = v[c["lo"][0]: c["hi"][0] + 1, c["lo"][1]: c["hi"][1] + 1]
        return v, ["t2", "t1"], [np.linspace(0.0, 2.0, v.shape[0]), np.linspace(1.0, 5.0, v.shape[1])]

    def perturbed(self, c, change):
        if change[0] >= c["rank"]:
            return None
        c2 = dict(c, pts=list(c["pts"])); c2["pts"][change[0]] += change[1] * (4 if c["rank"] == 2 else 1)
        if min(c2["pts"][: c["rank"]]) < (4 if c["rank"] == 2 else 2):
            return None
        if any(c2["hi"][k] >= c2["pts"][k] for k in range(c["rank"])):
            return None
        return c2

    def rebuild_header(self, c, d, path, change):
        c2 = self.perturbed(c, change)
        body = open(path, "rb").read()
        with open(path, "wb") as f:                     # extents change, the stated data length stays
            f.write(self.header_bytes(c2, declared=self.declared(c)) + body[self.DATA_START:])
        return c2


KITS = {k.name: k for k in (Prospa(), VnmrJ(), TopSpin(), TNMR(), RS2D(), BES3T(), WinEPR(), SpecMan(), Delta())}
